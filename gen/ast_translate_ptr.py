#!/usr/bin/env python3
"""Translator for the pointer-walking parser of src/time_zone_posix.cc
(ParseInt, ParseAbbr, ParseOffset, ParseDateTime, ParsePosixSpec): clang JSON
AST -> Gallina (coq/SourcePosix.v), re-run on every check.

Reading of the C++ (all of it checked, in the `res` monad of Base.v):
 * every `const char*` into the spec string is an INDEX into the buffer `buf`
   (the bytes of the std::string; index length(buf) is the terminating NUL),
   nullptr is -1; `*p` is `rd buf p` (Err on a null or out-of-bounds read),
   `p + k` is `padd buf p k` (Err when it leaves [0, length+1]), `p - q` is the
   index difference; a pointer returned by strchr(table, c) is an index into
   that constant table (or -1), only ever tested and subtracted from the table;
 * an output parameter (`int* vp`, `std::int_fast32_t* offset`, `std::string*`,
   `PosixTransition*`, `PosixTimeZone*`) is passed in as its current value(s)
   and handed back in the result tuple: a function returns
   (its C++ return value, out_1, ..., out_n); struct members are flattened to
   one variable per member path (`res->date.m.week` = res_date_m_week);
 * side effects inside expressions (`*p++`, `*++p`, `(p = f(..)) != nullptr`)
   are sequenced left to right, && and || short-circuit;
 * loops (for with condition declaration / while) are Fixpoints on fuel that
   return (Some value-returned-from-inside | None, loop state);
 * signed int arithmetic is checked (add32/...), size_t arithmetic wraps mod 2^64.
Anything outside the subset makes the whole file 'untranslated' (previous output
kept, fact recorded; not an alarm)."""
import json, os, re, sys

sys.path.insert(0, os.path.dirname(__file__))
from ast_translate import Untranslatable  # noqa: E402
from ast_translate64 import clang_docs, walk, tystr, zl, TRANSPARENT, CASTS, WIDTH, enum_value, global_const  # noqa: E402

REPO = os.environ.get("VERIF_REPO", "/repo")
SRC = "src/time_zone_posix.cc"
TARGETS = ["ParseInt", "ParseAbbr", "ParseOffset", "ParseDateTime", "ParsePosixSpec"]
# second unit: the data-side helpers of parse() in src/time_zone_format.cc (ParseInt<T> is instantiated for int and long)
SRC2 = "src/time_zone_format.cc"
TARGETS2 = ["ParseInt", "ParseOffset", "ParseSubSeconds"]
SRC3 = "src/time_zone_info.cc"
TARGETS3 = ["Decode8", "Decode32", "Decode64"]
UWIDTH = {"unsigned long": 64, "unsigned long long": 64, "unsigned int": 32, "unsigned char": 8, "unsigned short": 16}


def asts_of(fn):
    """definitions of fn in SRC: one FunctionDecl, or the instantiations of a function template (suffix = the
       instantiated element type)"""
    out, seen = [], set()
    for d in clang_docs(fn, SRC):
        for m in walk(d):
            if m.get("kind") == "FunctionDecl" and m.get("name") == fn and m.get("id") not in seen \
                    and any(c.get("kind") == "CompoundStmt" for c in m.get("inner", [])):
                seen.add(m.get("id"))
                if re.search(r"\bT\b", qt(m)):
                    continue                                   # the uninstantiated pattern
                out.append(m)
    if not out:
        raise Untranslatable("no definition of %s" % fn)
    if len(out) == 1:
        return [(fn, out[0])]
    res = []
    for m in out:
        ta = [c for c in m.get("inner", []) if c.get("kind") == "TemplateArgument"]
        if len(ta) != 1:
            raise Untranslatable("overloaded (not templated) function " + fn)
        res.append(("%s_%s" % (fn, ta[0].get("type", {}).get("qualType", "T").replace(" ", "_")), m))
    return res


def fn_key(call_callee_ref, known):
    """the translated function a DeclRefExpr to a function designates (template instantiations by their type)"""
    name = call_callee_ref.get("name")
    if name in known:
        return name
    t = call_callee_ref.get("type", {}).get("qualType", "")
    for k, info in known.items():
        if k.startswith(name + "_") and info.get("ctype") == t:
            return k
    return None


def qt(n):
    return n.get("type", {}).get("qualType", "")


def strip(n):
    while n.get("kind") in TRANSPARENT or n.get("kind") in CASTS:
        n = n["inner"][-1]
    return n


def is_charptr(t):
    return re.match(r"^(const )?char \*(const)?$", t.strip()) is not None


def outparam_kind(t):
    t = t.strip()
    if re.match(r"^(int|std::int_fast32_t|std::int_fast64_t|long|T|detail::femtoseconds|cctz::detail::femtoseconds) \*$", t):
        return "int"
    if re.match(r"^std::string \*$", t):
        return "str"
    if re.search(r"\b(PosixTransition|PosixTimeZone) \*$", t):
        return "struct"
    return None


def path_of(n):
    """lvalue designating (part of) an output parameter: (root parameter, [member names]) or None.
       *vp -> (vp, []); res->date.m.week -> (res, [date, m, week]); &res->dst_start -> (res, [dst_start])"""
    n = strip(n)
    names = []
    while True:
        k = n.get("kind")
        if k == "MemberExpr":
            if n.get("name"):
                names.append(n["name"])
            n = strip(n["inner"][0])
        elif k == "UnaryOperator" and n.get("opcode") in ("*", "&"):
            n = strip(n["inner"][0])
        elif k == "DeclRefExpr" and n.get("referencedDecl", {}).get("kind") in ("ParmVarDecl", "VarDecl"):
            return n["referencedDecl"]["name"], list(reversed(names))
        else:
            return None


def isptr(kd):
    return kd == "ptr" or kd.startswith("ptr:")


def bufof(kd):
    return kd[4:] if kd.startswith("ptr:") else "buf"


class B:
    """one binding: text, and the variable it (re)binds if it is a program variable"""
    def __init__(self, text, var=None):
        self.text, self.var = text, var


def txt(binds):
    return "".join(b.text for b in binds)


def rebound(binds):
    return {b.var for b in binds if b.var}


def mentions(term, var):
    return re.search(r"(?<![\w'])%s(?![\w'])" % re.escape(var), term) is not None


class Fn:
    def __init__(self, key, ast, known, prefix="sp_"):
        self.ast, self.known = ast, known          # known: name -> dict(gname, outs=[(suffix, kind)], ret)
        self.name = key
        self.gname = prefix + key
        self.tmp = 0
        self.loops = []
        self.kinds = {}                             # variable -> 'Z' | 'bool' | 'ptr' | 'tptr:<table>' | 'str'
        self.tables = {}                            # table name -> list of char codes
        self.itables = {}                           # global integer table -> values
        self.outs = []                              # [(var, kind)] in result order
        self.out_roots = {}                         # out parameter -> kind
        self.local_outs = {}                        # local int/struct variable passed by address -> handled as plain variable(s)
        self.bufparam = None

    def fresh(self):
        self.tmp += 1
        return "t%d" % self.tmp

    # ------------------------------------------------------------ result tuple
    def ret_tuple(self, val):
        parts = [val] + [v for v, _ in self.outs]
        return parts[0] if len(parts) == 1 else "(%s)" % ", ".join(parts)

    def ret_type(self):
        def ty(k):
            return "list Z" if k == "str" else "Z"
        parts = [("bool" if self.ret_kind == "bool" else "Z")] + [ty(k) for _, k in self.outs]
        return " * ".join(parts)

    # ------------------------------------------------------------ tables
    def table_of(self, n):
        """constant char table designated by an expression (kDigits or a string literal): name"""
        n = strip(n)
        if n.get("kind") == "StringLiteral":
            s = json.loads(n["value"]) if n["value"].startswith('"') else n["value"]
            name = "lit_" + "_".join(str(ord(c)) for c in s)
            self.tables[name] = [ord(c) for c in s]
            return name
        if n.get("kind") == "DeclRefExpr" and n.get("referencedDecl", {}).get("kind") == "VarDecl":
            nm = n["referencedDecl"]["name"]
            for d in clang_docs(nm, SRC):
                for m in walk(d):
                    if m.get("kind") == "VarDecl" and m.get("name") == nm:
                        for q in walk(m):
                            if q.get("kind") == "StringLiteral":
                                s = json.loads(q["value"])
                                self.tables["g_" + nm] = [ord(c) for c in s]
                                return "g_" + nm
        raise Untranslatable("unknown character table")

    # ------------------------------------------------------------ variables designated by lvalues
    def var_of_path(self, root, names):
        if root in self.out_roots or root in self.local_outs:
            return "_".join([root] + names)
        return None

    def struct_leaves(self, root, prefix):
        """all flattened variables of this function that lie under root.prefix"""
        pre = "_".join([root] + prefix)
        return [v for v, _ in self.outs if v == pre or v.startswith(pre + "_")]

    # ------------------------------------------------------------ expressions -> (binds, term, kind)
    def as_z(self, t, kd):
        return "(b2z %s)" % t if kd == "bool" else t

    def as_b(self, t, kd):
        if kd == "bool":
            return t
        if kd.startswith("ptr") or kd.startswith("tptr"):
            return "(negb (%s =? -1))" % t
        return "(negb (%s =? 0))" % t

    def block(self, binds, result):
        return "(" + txt(binds) + result + ")"

    def width(self, n):
        s = tystr(n.get("type", {}))
        if s in WIDTH:
            return WIDTH[s], True
        if s in UWIDTH:
            return UWIDTH[s], False
        raise Untranslatable("type " + s)

    def order(self, b1, t1, b2):
        """operand 1 was evaluated before operand 2: if evaluating operand 2 rebinds a variable operand 1's term
           mentions, fix operand 1's value in a temporary first"""
        for v in rebound(b2):
            if mentions(t1, v):
                x = self.fresh()
                return b1 + [B("let %s := %s in\n" % (x, t1))], x
        return b1, t1

    def expr(self, n, scope):
        k = n.get("kind")
        inner = n.get("inner", [])
        if k in TRANSPARENT:
            return self.expr(inner[-1], scope)
        if k in CASTS:
            ck = n.get("castKind")
            b, t, kd = self.expr(inner[-1], scope)
            if ck in ("LValueToRValue", "NoOp", "FunctionToPointerDecay", "ArrayToPointerDecay", "ConstructorConversion"):
                return b, t, kd
            if ck == "NullToPointer":
                return b, "(-1)", "ptr"
            if ck in ("PointerToBoolean", "IntegralToBoolean"):
                return b, self.as_b(t, kd), "bool"
            if ck == "IntegralCast":
                if kd == "bool":
                    return b, self.as_z(t, kd), "Z"
                (sw, ss), (dw, ds) = self.width(inner[-1]), self.width(n)
                if ds and ss and dw >= sw:
                    return b, t, "Z"
                if not ds:                                   # to unsigned: modular
                    if not ss and dw >= sw:
                        return b, t, "Z"
                    lv0 = strip(inner[-1])
                    if lv0.get("kind") == "IntegerLiteral" and 0 <= int(lv0["value"]) < (1 << dw):
                        return b, t, "Z"
                    return b, "(Z.modulo %s (2 ^ %d))" % (t, dw), "Z"
                lv = inner[-1]
                if strip(lv).get("kind") in ("IntegerLiteral", "CharacterLiteral"):
                    return b, t, "Z"
                if not ss and dw > sw:
                    return b, t, "Z"                          # unsigned to a wider signed type
                if sw <= 8 and ss and dw > sw:
                    return b, t, "Z"
                x = self.fresh()
                return b + [B("do %s <- narrow%d %s ;;\n" % (x, dw, t))], x, "Z"
            raise Untranslatable("cast kind " + str(ck))
        if k == "IntegerLiteral":
            return [], zl(int(n["value"])), "Z"
        if k == "CharacterLiteral":
            return [], zl(int(n["value"])), "Z"
        if k == "CXXBoolLiteralExpr":
            return [], "true" if n.get("value") else "false", "bool"
        if k == "CXXNullPtrLiteralExpr":
            return [], "(-1)", "ptr"
        if k == "DeclRefExpr":
            ref = n.get("referencedDecl", {})
            name = ref.get("name")
            if ref.get("kind") == "EnumConstantDecl":
                return [], zl(enum_value(ref, SRC)), "Z"
            if name in scope:
                return [], name, self.kinds.get(name, "Z")
            if ref.get("kind") == "VarDecl":
                if re.match(r"^const char\[\d+\]$", ref.get("type", {}).get("qualType", "")):
                    return [], "0", "tptr:" + self.table_of(n)          # the table itself: its first element
                v = global_const(name, SRC)
                if isinstance(v, int):
                    return [], zl(v), "Z"
            raise Untranslatable("unknown name " + str(name))
        if k == "MemberExpr":
            p = path_of(n)
            if p is not None:
                v = self.var_of_path(*p)
                if v in scope:
                    return [], v, self.kinds.get(v, "Z")
            raise Untranslatable("member access " + str(n.get("name")))
        if k == "UnaryOperator":
            op = n["opcode"]
            if op in ("++", "--"):
                tgt = strip(inner[0])
                v = tgt.get("referencedDecl", {}).get("name")
                if tgt.get("kind") != "DeclRefExpr" or v not in scope:
                    raise Untranslatable("increment of a non-variable")
                kd = self.kinds.get(v, "Z")
                d = "1" if op == "++" else "(-1)"
                if isptr(kd):
                    x = self.fresh()
                    step = [B("do %s <- padd %s %s %s ;;\n" % (x, bufof(kd), v, d))]
                elif kd == "Z":
                    w, sg = self.width(tgt)
                    x = self.fresh()
                    step = [B("do %s <- add%d %s %s ;;\n" % (x, max(w, 32), v, d))]
                else:
                    raise Untranslatable("increment of " + kd)
                if n.get("isPostfix"):
                    old = self.fresh()
                    return [B("let %s := %s in\n" % (old, v))] + step + [B("let %s := %s in\n" % (v, x), v)], old, kd
                return step + [B("let %s := %s in\n" % (v, x), v)], v, kd
            if op == "*":
                b, t, kd = self.expr(inner[0], scope)
                if isptr(kd):
                    x = self.fresh()
                    return b + [B("do %s <- rd %s %s ;;\n" % (x, bufof(kd), t))], x, "Z"
                p = path_of(n)
                if p is not None:
                    v = self.var_of_path(*p)
                    if v in scope:
                        return [], v, self.kinds.get(v, "Z")
                raise Untranslatable("dereference of " + kd)
            b, t, kd = self.expr(inner[0], scope)
            if op == "!":
                return b, "(negb %s)" % self.as_b(t, kd), "bool"
            if op == "+":
                return b, self.as_z(t, kd), "Z"
            if op == "-":
                if strip(inner[0]).get("kind") == "IntegerLiteral":
                    return b, zl(-int(strip(inner[0])["value"])), "Z"
                w, sg = self.width(n)
                x = self.fresh()
                return b + [B("do %s <- neg%d %s ;;\n" % (x, max(w, 32), self.as_z(t, kd)))], x, "Z"
            raise Untranslatable("unary " + op)
        if k == "BinaryOperator":
            op = n["opcode"]
            if op == "=":
                return self.assign_expr(n, scope)
            if op in ("&&", "||"):
                b1, t1, k1 = self.expr(inner[0], scope)
                b2, t2, k2 = self.expr(inner[1], scope)
                t1, t2 = self.as_b(t1, k1), self.as_b(t2, k2)
                if not b2:
                    return b1, "(%s %s %s)" % (t1, op, t2), "bool"
                x = self.fresh()
                rb = [v for v in scope if v in rebound(b2)]
                if rb:
                    # the right operand's side effects happen only when it is evaluated: the block hands back
                    # its truth value together with the variables it rebinds
                    tupv = "(%s)" % ", ".join([x] + rb)
                    skip = "OK (%s, %s)" % ("false" if op == "&&" else "true", ", ".join(rb))
                    run = self.block(b2, "OK (%s, %s)" % (t2, ", ".join(rb)))
                    e = ("(if %s then %s else %s)" % (t1, run, skip)) if op == "&&" else ("(if %s then %s else %s)" % (t1, skip, run))
                    return b1 + [B("do '%s <- %s ;;\n" % (tupv, e))] + [B("", v) for v in rb], x, "bool"
                e = ("(if %s then %s else OK false)" if op == "&&" else "(if %s then OK true else %s)") % (t1, self.block(b2, "OK %s" % t2))
                return b1 + [B("do %s <- %s ;;\n" % (x, e))], x, "bool"
            b1, t1, k1 = self.expr(inner[0], scope)
            b2, t2, k2 = self.expr(inner[1], scope)
            b1, t1 = self.order(b1, t1, b2)
            ptrs = (isptr(k1) or k1.startswith("tptr"), isptr(k2) or k2.startswith("tptr"))
            if op in ("==", "!=", "<", "<=", ">", ">="):
                if ptrs[0] != ptrs[1] and not (ptrs[0] and t2 == "(-1)") and not (ptrs[1] and t1 == "(-1)"):
                    raise Untranslatable("comparison of a pointer with an integer")
                if (ptrs[0] or ptrs[1]) and op not in ("==", "!="):
                    raise Untranslatable("ordering of pointers")
                a, c = self.as_z(t1, k1) if not ptrs[0] else t1, self.as_z(t2, k2) if not ptrs[1] else t2
                m = {"==": "(%s =? %s)", "!=": "(negb (%s =? %s))", "<": "(%s <? %s)", "<=": "(%s <=? %s)"}
                if op in m:
                    return b1 + b2, m[op] % (a, c), "bool"
                return b1 + b2, ("(%s <? %s)" if op == ">" else "(%s <=? %s)") % (c, a), "bool"
            if op in ("+", "-") and ptrs[0] and not ptrs[1]:
                if not isptr(k1):
                    raise Untranslatable("arithmetic on a table pointer")
                x = self.fresh()
                off = self.as_z(t2, k2) if op == "+" else "(- %s)" % self.as_z(t2, k2)
                return b1 + b2 + [B("do %s <- padd %s %s %s ;;\n" % (x, bufof(k1), t1, off))], x, k1
            if op == "-" and ptrs[0] and ptrs[1]:
                if isptr(k1) and isptr(k2) and bufof(k1) == bufof(k2):
                    x = self.fresh()
                    return b1 + b2 + [B("do %s <- pdiff %s %s ;;\n" % (x, t1, t2))], x, "Z"
                if k1.startswith("tptr") and k2.startswith("tptr") and k2 == k1 and t2 == "0":
                    x = self.fresh()
                    return b1 + b2 + [B("do %s <- tdiff %s ;;\n" % (x, t1))], x, "Z"
                raise Untranslatable("difference of unrelated pointers")
            if ptrs[0] or ptrs[1]:
                raise Untranslatable("pointer operand of " + op)
            t1, t2 = self.as_z(t1, k1), self.as_z(t2, k2)
            if op in ("+", "-", "*"):
                w, sg = self.width(n)
                x = self.fresh()
                if sg:
                    f = {"+": "add", "-": "sub", "*": "mul"}[op]
                    return b1 + b2 + [B("do %s <- %s%d %s %s ;;\n" % (x, f, max(w, 32), t1, t2))], x, "Z"
                return b1 + b2 + [B("let %s := Z.modulo (%s %s %s) (2 ^ %d) in\n" % (x, t1, op, t2, w))], x, "Z"
            if op in ("<<", ">>", "|", "&", "^"):
                w, sg = self.width(n)
                if sg and op in ("<<", ">>"):
                    raise Untranslatable("shift of a signed value")
                x = self.fresh()
                if op == "<<":
                    sh = strip(inner[1])
                    if sh.get("kind") != "IntegerLiteral" or not (0 <= int(sh["value"]) < w):
                        raise Untranslatable("shift by a non-constant or out-of-range amount")
                    return b1 + b2 + [B("let %s := Z.modulo (Z.shiftl %s %s) (2 ^ %d) in\n" % (x, t1, t2, w))], x, "Z"
                if op == ">>":
                    sh = strip(inner[1])
                    if sh.get("kind") != "IntegerLiteral" or not (0 <= int(sh["value"]) < w):
                        raise Untranslatable("shift by a non-constant or out-of-range amount")
                    return b1 + b2, "(Z.shiftr %s %s)" % (t1, t2), "Z"
                f = {"|": "Z.lor", "&": "Z.land", "^": "Z.lxor"}[op]
                return b1 + b2, "(%s %s %s)" % (f, t1, t2), "Z"
            if op in ("/", "%"):
                v = strip(inner[1])
                if v.get("kind") != "IntegerLiteral" or int(v["value"]) <= 0:
                    raise Untranslatable("division by a non-constant or non-positive value")
                return b1 + b2, "(Z.%s %s %s)" % ("quot" if op == "/" else "rem", t1, t2), "Z"
            raise Untranslatable("binary " + op)
        if k == "CompoundAssignOperator":
            op = n["opcode"]
            tgt = strip(inner[0])
            v = tgt.get("referencedDecl", {}).get("name") if tgt.get("kind") == "DeclRefExpr" else None
            if v is None:
                p = path_of(inner[0])
                v = self.var_of_path(*p) if p else None
            if v is not None and v in scope and isptr(self.kinds.get(v, "Z")) and op in ("+=", "-="):
                b, t, kd = self.expr(inner[1], scope)
                x = self.fresh()
                off = self.as_z(t, kd) if op == "+=" else "(- %s)" % self.as_z(t, kd)
                return b + [B("do %s <- padd %s %s %s ;;\n" % (x, bufof(self.kinds[v]), v, off)), B("let %s := %s in\n" % (v, x), v)], v, self.kinds[v]
            if v is None or v not in scope or self.kinds.get(v, "Z") != "Z":
                raise Untranslatable("compound assignment to something that is not an integer variable")
            b, t, kd = self.expr(inner[1], scope)
            t = self.as_z(t, kd)
            cw = WIDTH.get(tystr(n.get("computeResultType", {})))
            if op in ("+=", "-=", "*=") and cw in (32, 64):
                x = self.fresh()
                f = {"+": "add", "-": "sub", "*": "mul"}[op[0]]
                lw, _sg = self.width(tgt)
                out = b + [B("do %s <- %s%d %s %s ;;\n" % (x, f, cw, v, t))]
                if lw < cw:
                    y = self.fresh()
                    out.append(B("do %s <- narrow%d %s ;;\n" % (y, lw, x)))
                    x = y
                return out + [B("let %s := %s in\n" % (v, x), v)], v, "Z"
            raise Untranslatable("compound assignment " + op)
        if k == "ArraySubscriptExpr":
            base = strip(inner[0])
            bb, bt, bk = self.expr(inner[0], scope) if base.get("referencedDecl", {}).get("name") in scope else ([], None, None)
            ib, it, ik = self.expr(inner[1], scope)
            if bk is not None and isptr(bk) and bk != "ptr":
                x, y = self.fresh(), self.fresh()
                return bb + ib + [B("do %s <- padd %s %s %s ;;\n" % (x, bufof(bk), bt, self.as_z(it, ik))),
                                  B("do %s <- rd %s %s ;;\n" % (y, bufof(bk), x))], y, "Z"
            if base.get("kind") == "DeclRefExpr" and base.get("referencedDecl", {}).get("kind") == "VarDecl":
                nm = base["referencedDecl"]["name"]
                v = global_const(nm, SRC)
                if isinstance(v, list) and all(isinstance(e, int) for e in v):
                    self.itables["g_" + nm] = v
                    y = self.fresh()
                    return ib + [B("do %s <- tbl_get g_%s %s ;;\n" % (y, nm, self.as_z(it, ik)))], y, "Z"
            raise Untranslatable("subscript")
        if k in ("CXXConstructExpr", "CXXTemporaryObjectExpr") and len(inner) == 1 and re.search(r"duration|femtoseconds|seconds", qt(n)):
            return self.expr(inner[0], scope)                 # std::chrono::duration built from its count
        if k == "CXXOperatorCallExpr" and len(inner) == 3 and strip(inner[0]).get("referencedDecl", {}).get("name") == "operator=":
            return self.assign_expr({"inner": [inner[1], inner[2]]}, scope)     # duration::operator=
        if k == "ConditionalOperator":
            raise Untranslatable("conditional operator")
        if k == "CallExpr":
            return self.call(n, scope)
        if k == "CXXMemberCallExpr":
            me = inner[0]
            if me.get("kind") == "MemberExpr" and me.get("name") == "c_str" and len(inner) == 1:
                obj = strip(me["inner"][0])
                if obj.get("referencedDecl", {}).get("name") == self.bufparam:
                    return [], "0", "ptr"
            raise Untranslatable("member call " + str(me.get("name")))
        raise Untranslatable("expression kind " + str(k))

    def assign_expr(self, n, scope):
        """v = e  /  *out = e  /  out->member = e   as an expression: (binds, term, kind)"""
        lhs, rhs = n["inner"]
        b, t, kd = self.expr(rhs, scope)
        tgt = strip(lhs)
        v = None
        if tgt.get("kind") == "DeclRefExpr":
            v = tgt.get("referencedDecl", {}).get("name")
        else:
            p = path_of(lhs)
            if p is not None:
                v = self.var_of_path(*p)
        if v is None or v not in scope:
            raise Untranslatable("assignment to something that is not a variable")
        vk = self.kinds.get(v, "Z")
        if vk == "Z":
            t = self.as_z(t, kd)
        elif vk == "bool":
            t = self.as_b(t, kd)
        elif isptr(vk) and not (isptr(kd) and (kd == "ptr" or bufof(kd) == bufof(vk))):
            raise Untranslatable("pointer assigned from " + kd)
        return b + [B("let %s := %s in\n" % (v, t), v)], v, vk

    def call(self, n, scope):
        inner = n["inner"]
        c = strip(inner[0])
        name = c.get("referencedDecl", {}).get("name")
        args = inner[1:]
        if name == "strchr" and len(args) == 2:
            tb = self.table_of(args[0])
            b, t, kd = self.expr(args[1], scope)
            return b, "(strchr_ix %s %s)" % (tb, self.as_z(t, kd)), "tptr:" + tb
        if name in ("max", "min") and not args and c.get("referencedDecl", {}).get("kind") == "CXXMethodDecl":
            w, sg = self.width(n)
            if not sg:
                raise Untranslatable("numeric_limits of an unsigned type")
            return [], zl((1 << (w - 1)) - 1 if name == "max" else -(1 << (w - 1))), "Z"
        key = fn_key(c.get("referencedDecl", {}), self.known)
        info = self.known.get(key) if key else None
        if info is None:
            raise Untranslatable("call of " + str(name))
        binds, terms, outvars = [], [], []
        bufarg = "buf"
        plain = [a for a in args]
        for a, (pname, pkind) in zip(plain, info["params"]):
            if pkind == "buf":
                raise Untranslatable("buffer argument")
            if pkind in ("int", "str", "struct"):
                p = path_of(a)
                if p is None:
                    raise Untranslatable("output argument that is not an lvalue path")
                root, names = p
                if pkind == "struct":
                    leaves = ["_".join([root] + names + ([s] if s else [])) for s, _ in info["outs_of"][pname]]
                else:
                    leaves = ["_".join([root] + names)]
                for lv in leaves:
                    if lv not in scope:
                        raise Untranslatable("output argument %s is not a known variable" % lv)
                terms += leaves
                outvars += leaves
            else:
                b, t, kd = self.expr(a, scope)
                # earlier plain arguments must keep their values if this one rebinds variables they mention
                for v in rebound(b):
                    if any(mentions(x, v) for x in terms):
                        raise Untranslatable("argument evaluation order")
                binds += b
                if pkind.startswith("ptr"):
                    if not isptr(kd):
                        raise Untranslatable("pointer argument of kind " + kd)
                    if pkind == "ptr:first":
                        bufarg = bufof(kd)
                    else:
                        terms.append(bufof(kd))                 # the buffer this extra pointer parameter points into
                    terms.append(t)
                else:
                    terms.append(t if kd == "str" or kd.startswith("tptr") else (self.as_b(t, kd) if pkind == "bool" else self.as_z(t, kd)))
        r = self.fresh()
        pat = "'(%s)" % ", ".join([r] + outvars) if outvars else r
        text = "do %s <- %s fuel %s %s ;;\n" % (pat, info["gname"], bufarg, " ".join(terms))
        out = binds + [B(text)]
        for v in outvars:
            out.append(B("", v))                     # marks v as rebound (the pattern above binds it)
        rk = info["ret"]
        if rk == "ptr" and bufarg != "buf":
            rk = "ptr:" + bufarg
        return out, r, rk

    # ------------------------------------------------------------ statements
    @staticmethod
    def body_list(st):
        if st is None or not st:
            return []
        return list(st.get("inner", [])) if st.get("kind") == "CompoundStmt" else [st]

    def assigned(self, stmts, scope):
        """program variables possibly (re)bound by these statements, in scope order"""
        got = set()
        for st in stmts:
            for m in walk(st):
                k = m.get("kind")
                v = None
                if k == "CompoundAssignOperator" or (k == "BinaryOperator" and m.get("opcode") == "="):
                    t = strip(m["inner"][0])
                    if t.get("kind") == "DeclRefExpr":
                        v = t.get("referencedDecl", {}).get("name")
                    else:
                        p = path_of(m["inner"][0])
                        v = self.var_of_path(*p) if p else None
                    if v:
                        got.add(v)
                elif k == "UnaryOperator" and m.get("opcode") in ("++", "--"):
                    got.add(strip(m["inner"][0]).get("referencedDecl", {}).get("name"))
                elif k == "CXXOperatorCallExpr" and len(m.get("inner", [])) == 3 \
                        and strip(m["inner"][0]).get("referencedDecl", {}).get("name") == "operator=":
                    p = path_of(m["inner"][1])
                    if p:
                        got.add(self.var_of_path(*p))
                elif k == "CXXMemberCallExpr":
                    me = m["inner"][0]
                    if me.get("kind") == "MemberExpr" and me.get("name") == "assign":
                        p = path_of(me["inner"][0])
                        if p:
                            got.add(self.var_of_path(*p))
                elif k == "CallExpr":
                    ck = fn_key(strip(m["inner"][0]).get("referencedDecl", {}), self.known)
                    info = self.known.get(ck) if ck else None
                    if info:
                        for a, (pname, pkind) in zip(m["inner"][1:], info["params"]):
                            if pkind in ("int", "str", "struct"):
                                p = path_of(a)
                                if p:
                                    root, names = p
                                    if pkind == "struct":
                                        for s, _ in info["outs_of"][pname]:
                                            got.add("_".join([root] + names + ([s] if s else [])))
                                    else:
                                        got.add("_".join([root] + names))
        return [v for v in scope if v in got]

    def used(self, stmts, scope):
        names = set()
        for st in stmts:
            for m in walk(st):
                if m.get("kind") == "DeclRefExpr":
                    names.add(m.get("referencedDecl", {}).get("name"))
                p = path_of(m) if m.get("kind") in ("MemberExpr", "UnaryOperator") else None
                if p:
                    v = self.var_of_path(*p)
                    if v:
                        names.add(v)
                        for w, _ in self.outs:
                            if w.startswith(v + "_"):
                                names.add(w)
        return [v for v in scope if v in names]

    def walk_own(self, n):
        if isinstance(n, dict):
            yield n
            if n.get("kind") in ("ForStmt", "WhileStmt", "DoStmt"):
                for m in walk(n):
                    if m.get("kind") == "ReturnStmt":
                        yield m
                return
            for c in n.get("inner", []):
                yield from self.walk_own(c)

    def escapes(self, stmts):
        return any(m.get("kind") in ("ReturnStmt", "BreakStmt", "ContinueStmt") for st in stmts for m in self.walk_own(st))

    def always_escapes(self, stmts):
        if not stmts:
            return False
        last = stmts[-1]
        if last.get("kind") in ("ReturnStmt", "BreakStmt"):
            return True
        if last.get("kind") == "CompoundStmt":
            return self.always_escapes(self.body_list(last))
        if last.get("kind") == "IfStmt" and last.get("hasElse"):
            return self.always_escapes(self.body_list(last["inner"][1])) and self.always_escapes(self.body_list(last["inner"][2]))
        return False

    @staticmethod
    def tup(vs):
        return "tt" if not vs else (vs[0] if len(vs) == 1 else "(%s)" % ", ".join(vs))

    @staticmethod
    def pat(vs):
        return "_" if not vs else (vs[0] if len(vs) == 1 else "'(%s)" % ", ".join(vs))

    def state_type(self, vs):
        if not vs:
            return "unit"
        return " * ".join("list Z" if self.kinds.get(v) == "str" else ("bool" if self.kinds.get(v) == "bool" else "Z") for v in vs)

    def finish(self, tail, val):
        """a `return val;` in the current context"""
        if tail[0] == "loop":
            return "OK (Some %s, %s)" % (self.ret_tuple(val), self.tup(tail[3]))
        if tail[0] in ("ploop", "fall"):
            raise Untranslatable("return inside a joined branch")
        return "OK %s" % self.ret_tuple(val)

    def seq(self, stmts, scope, tail):
        if not stmts:
            if tail[0] == "fall":
                return "OK %s" % self.tup(tail[1])
            if tail[0] in ("loop", "ploop"):
                return tail[4]                                        # increment + next iteration
            raise Untranslatable("control reaches the end of a non-void function")
        st, rest = stmts[0], stmts[1:]
        k = st.get("kind")
        if k == "CompoundStmt":
            return self.seq(self.body_list(st) + rest, scope, tail)
        if k == "NullStmt":
            return self.seq(rest, scope, tail)
        if k == "DeclStmt":
            out, sc = "", list(scope)
            for vd in st.get("inner", []):
                if vd["kind"] != "VarDecl":
                    raise Untranslatable("declaration of " + vd["kind"])
                name = vd["name"]
                if name in sc:
                    raise Untranslatable("shadowing declaration of " + name)
                if not vd.get("inner"):
                    raise Untranslatable("declaration without initialiser")
                b, t, kd = self.expr(vd["inner"][-1], sc)
                ty = tystr(vd.get("type", {}))
                if is_charptr(qt(vd)):
                    self.kinds[name] = kd if (isptr(kd) or kd.startswith("tptr")) else "ptr"
                elif ty == "bool":
                    self.kinds[name] = "bool"
                    t = self.as_b(t, kd)
                else:
                    self.kinds[name] = "Z"
                    t = self.as_z(t, kd)
                out += txt(b) + "let %s := %s in\n" % (name, t)
                sc.append(name)
            return out + self.seq(rest, sc, tail)
        if k == "ReturnStmt":
            b, t, kd = self.expr(st["inner"][0], scope)
            if self.ret_kind == "bool":
                t = self.as_b(t, kd)
            elif self.ret_kind == "Z":
                t = self.as_z(t, kd)
            return txt(b) + self.finish(tail, t)
        if k == "BreakStmt":
            if tail[0] == "ploop":
                return "OK %s" % self.tup(tail[3])
            if tail[0] != "loop":
                raise Untranslatable("break outside a loop")
            return "OK (None, %s)" % self.tup(tail[3])
        if k == "IfStmt" and st.get("hasVar"):
            ins = st["inner"]
            plain = {kk: vv for kk, vv in st.items() if kk != "hasVar"}
            plain["inner"] = ins[1:]
            return self.seq([ins[0], plain] + rest, scope, tail)   # the condition variable stays in scope (names are not reused)
        if k == "IfStmt":
            cb, ct, ck = self.expr(st["inner"][0], scope)
            c = self.as_b(ct, ck)
            pre = txt(cb)
            th = self.body_list(st["inner"][1])
            el = self.body_list(st["inner"][2]) if st.get("hasElse") else []
            if self.escapes(th) or self.escapes(el):
                a = self.seq(th if self.always_escapes(th) else th + rest, scope, tail)
                b = self.seq(el if self.always_escapes(el) else el + rest, scope, tail)
                return "%sif %s then (\n%s\n) else (\n%s\n)" % (pre, c, a, b)
            vs = self.assigned(th + el, scope)
            if not vs:
                raise Untranslatable("if without effect")
            a = self.seq(th, scope, ("fall", vs))
            b = self.seq(el, scope, ("fall", vs))
            return "%sdo %s <- (if %s then (\n%s\n) else (\n%s\n)) ;;\n%s" % (pre, self.pat(vs), c, a, b, self.seq(rest, scope, tail))
        if k in ("ForStmt", "WhileStmt"):
            if k == "ForStmt":
                init, cvar, cond, inc, body = (st["inner"] + [None] * 5)[:5]
            else:
                ins = st["inner"]
                init, inc = None, None
                cvar, cond, body = (None, ins[0], ins[1]) if len(ins) == 2 else (ins[0], ins[1], ins[2])
            if init:
                return self.seq([init, dict(st, inner=[None, cvar, cond, inc, body], kind="ForStmt")] + rest, scope, tail)
            bl = self.body_list(body)
            pieces = ([cvar] if cvar else []) + ([cond] if cond else []) + ([inc] if inc else []) + bl
            stv = self.assigned(pieces, scope)
            # a return inside the loop hands back the current outputs: they are read there
            ro = [v for v in self.used(pieces, scope) if v not in stv]
            if any(m.get("kind") == "ReturnStmt" for x in pieces if x for m in walk(x)):
                ro = [v for v in scope if v not in stv and (v in ro or v in [o for o, _ in self.outs])]
            has_ret = any(m.get("kind") == "ReturnStmt" for x in pieces if x for m in walk(x))
            plain_loop = tail[0] == "fall"        # inside a joined branch: the loop's result feeds the join, it cannot return
            if plain_loop and has_ret:
                raise Untranslatable("return inside a loop inside a joined branch")
            lname = "%s_loop%d" % (self.gname, len(self.loops) + 1)
            self.loops.append(None)
            idx = len(self.loops) - 1
            sc = list(scope)
            head = ""
            if cvar:
                vd = cvar["inner"][0]
                b, t, kd = self.expr(vd["inner"][-1], sc)
                self.kinds[vd["name"]] = kd
                head += txt(b) + "let %s := %s in\n" % (vd["name"], t)
                sc.append(vd["name"])
            cb, ct, ck = self.expr(cond, sc) if cond else ([], "true", "bool")
            if rebound(cb) - set(stv):
                raise Untranslatable("loop condition rebinds a non-state variable")
            recur = "%s fuel buf %s" % (lname, " ".join(ro + stv))
            if inc:
                ib, it, ik = self.expr(inc, sc)
                recur = txt(ib) + recur
            btxt = self.seq(bl, sc, ("ploop" if plain_loop else "loop", lname, ro, stv, recur))
            if plain_loop:
                itxt = "%s%sif %s then (\n%s\n) else (\nOK %s\n)" % (head, txt(cb), self.as_b(ct, ck), btxt, self.tup(stv))
            else:
                itxt = "%s%sif %s then (\n%s\n) else (\nOK (None, %s)\n)" % (head, txt(cb), self.as_b(ct, ck), btxt, self.tup(stv))

            def pty(v):
                return "list Z" if self.kinds.get(v) == "str" else ("bool" if self.kinds.get(v) == "bool" else "Z")
            if plain_loop:
                self.loops[idx] = ("Fixpoint %s (fuel : nat) (buf : list Z) %s {struct fuel} : res (%s) :=\n  match fuel with\n  | O => Err Fuel\n  | S fuel =>\n%s\n  end.\n\n"
                                   % (lname, " ".join("(%s : %s)" % (v, pty(v)) for v in ro + stv), self.state_type(stv), itxt))
                return "do %s <- %s fuel buf %s ;;\n%s" % (self.pat(stv), lname, " ".join(ro + stv), self.seq(rest, scope, tail))
            self.loops[idx] = ("Fixpoint %s (fuel : nat) (buf : list Z) %s {struct fuel} : res (option (%s) * (%s)) :=\n  match fuel with\n  | O => Err Fuel\n  | S fuel =>\n%s\n  end.\n\n"
                               % (lname, " ".join("(%s : %s)" % (v, pty(v)) for v in ro + stv), self.ret_type(), self.state_type(stv), itxt))
            r = self.fresh()
            after = self.seq(rest, scope, tail)
            if tail[0] == "loop":
                got = "OK (Some rv_, %s)" % self.tup(tail[3])
            elif tail[0] == "ploop":
                raise Untranslatable("returning loop inside a plain loop")
            else:
                got = "OK rv_"
            return "do '(%s, %s) <- %s fuel buf %s ;;\nmatch %s with\n| Some rv_ => %s\n| None =>\n%s\nend" % (
                r, self.tup(stv) if len(stv) != 1 else stv[0], lname, " ".join(ro + stv), r, got, after)
        # expression statements
        if k == "CXXMemberCallExpr":
            me = st["inner"][0]
            if me.get("kind") == "MemberExpr" and me.get("name") == "assign" and len(st["inner"]) == 3:
                p = path_of(me["inner"][0])
                v = self.var_of_path(*p) if p else None
                if v in scope and self.kinds.get(v) == "str":
                    b1, t1, k1 = self.expr(st["inner"][1], scope)
                    b2, t2, k2 = self.expr(st["inner"][2], scope)
                    b1, t1 = self.order(b1, t1, b2)
                    if not isptr(k1):
                        raise Untranslatable("assign from " + k1)
                    return txt(b1 + b2) + "do %s <- substr buf %s %s ;;\n" % (v, t1, self.as_z(t2, k2)) + self.seq(rest, scope, tail)
            raise Untranslatable("member call statement")
        if k in ("BinaryOperator", "UnaryOperator", "CallExpr", "ExprWithCleanups", "CompoundAssignOperator", "CXXOperatorCallExpr"):
            b, t, kd = self.expr(st, scope)
            return txt(b) + self.seq(rest, scope, tail)
        raise Untranslatable("statement " + str(k))

    # ------------------------------------------------------------ function
    def translate(self):
        params, scope, body, sig = [], [], None, []
        struct_roots = []
        for c in self.ast.get("inner", []):
            if c["kind"] == "ParmVarDecl":
                t, p = qt(c), c.get("name")
                if p is None:
                    raise Untranslatable("unnamed parameter")
                ok = outparam_kind(t)
                if is_charptr(t):
                    if not any(k.startswith("ptr") for _, k in sig):
                        self.kinds[p] = "ptr"
                        params.append("(%s : Z)" % p)
                        sig.append((p, "ptr:first"))
                    else:
                        self.kinds[p] = "ptr:%s_buf" % p
                        params.append("(%s_buf : list Z) (%s : Z)" % (p, p))
                        sig.append((p, "ptr:own"))
                    scope.append(p)
                elif re.match(r"^const std::string &$", t.strip()):
                    self.bufparam = p
                    sig.append((p, "buf"))
                elif ok == "int":
                    self.out_roots[p] = ok
                    self.kinds[p] = "Z"
                    self.outs.append((p, "int"))
                    sig.append((p, "int"))
                elif ok == "str":
                    self.out_roots[p] = ok
                    self.kinds[p] = "str"
                    self.outs.append((p, "str"))
                    sig.append((p, "str"))
                elif ok == "struct":
                    self.out_roots[p] = ok
                    struct_roots.append(p)
                    sig.append((p, "struct"))
                elif tystr(c.get("type", {})) == "bool":
                    self.kinds[p] = "bool"
                    params.append("(%s : bool)" % p)
                    scope.append(p)
                    sig.append((p, "bool"))
                else:
                    self.width(c)
                    self.kinds[p] = "Z"
                    params.append("(%s : Z)" % p)
                    scope.append(p)
                    sig.append((p, "val"))
            elif c["kind"] == "CompoundStmt":
                body = c
        # locals passed by address (int hours = 0; ParseInt(.., &hours)) are ordinary variables
        for m in walk(body):
            if m.get("kind") == "VarDecl" and tystr(m.get("type", {})) in WIDTH:
                self.local_outs[m["name"]] = "int"
        # member paths of struct outputs: every leaf this function touches directly, plus the callee's leaves
        outs_of = {}
        for root in struct_roots:
            leaves = {}
            for m in walk(body):
                if m.get("kind") == "MemberExpr":
                    p = path_of(m)
                    if p and p[0] == root and p[1]:
                        ty = tystr(m.get("type", {}))
                        if ty in WIDTH or re.search(r"DateFormat$", ty):
                            leaves["_".join(p[1])] = "int"
                        elif "basic_string" in ty or ty.endswith("std::string") or ty == "std::string":
                            leaves["_".join(p[1])] = "str"
                if m.get("kind") == "CallExpr":
                    cn = fn_key(strip(m["inner"][0]).get("referencedDecl", {}), self.known)
                    info = self.known.get(cn) if cn else None
                    if info:
                        for a, (pname, pkind) in zip(m["inner"][1:], info["params"]):
                            p = path_of(a)
                            if p and p[0] == root:
                                if pkind == "struct":
                                    for s, kd in info["outs_of"][pname]:
                                        leaves["_".join(p[1] + ([s] if s else []))] = kd
                                elif pkind in ("int", "str"):
                                    leaves["_".join(p[1])] = pkind
            outs_of[root] = sorted(leaves.items())
            for s, kd in outs_of[root]:
                v = "%s_%s" % (root, s)
                self.outs.append((v, kd))
                self.kinds[v] = "str" if kd == "str" else "Z"
        for v, kd in self.outs:
            params.append("(%s : %s)" % (v, "list Z" if kd == "str" else "Z"))
            scope.append(v)
        rt = qt(self.ast).split("(")[0].strip()
        self.ret_kind = "bool" if rt == "bool" else ("ptr" if is_charptr(rt) else "Z")
        term = self.seq(self.body_list(body), scope, ("none",))
        pre = "".join("let %s := [%s] in\n" % (tn, "; ".join(zl(c) for c in cs)) for tn, cs in sorted(list(self.tables.items()) + list(self.itables.items())))
        text = "".join(l.replace("  | S fuel =>\n", "  | S fuel =>\n" + pre, 1) if pre else l for l in self.loops)
        bufp = "(buf : list Z)"
        text += "Definition %s (fuel : nat) %s %s : res (%s) :=\n%s%s.\n" % (self.gname, bufp, " ".join(params), self.ret_type(), pre, term)
        info = {"gname": self.gname, "params": sig, "outs_of": outs_of, "ret": self.ret_kind if self.ret_kind != "Z" else "Z",
                "outs": list(self.outs), "ctype": qt(self.ast)}
        return text, info


PRELUDE = """(* SourcePosix.v - GENERATED by gen/ast_translate_ptr.py from clang's AST of /repo's current
   src/time_zone_posix.cc on every run.  Do not edit.  Pointers into the spec string are indices
   into [buf] (index length = the terminating NUL, -1 = nullptr); output parameters are passed in
   and returned; see the translator's header for the full reading. *)
From CCTZ Require Import Base.
Local Open Scope Z_scope.
Definition b2z (b : bool) : Z := if b then 1 else 0.
Definition blen (buf : list Z) : Z := Z.of_nat (length buf).
(* *p : the byte at index p; the NUL terminator at index length; anything else is undefined *)
Definition rd (buf : list Z) (p : Z) : res Z :=
  if p <? 0 then Err Precond
  else if p <? blen buf then OK (nth (Z.to_nat p) buf 0)
  else if p =? blen buf then OK 0 else Err OOB.
(* p + k : stays within the array of length+1 chars or one past it *)
Definition padd (buf : list Z) (p k : Z) : res Z :=
  if p <? 0 then Err Precond
  else if (0 <=? p + k) && (p + k <=? blen buf + 1) then OK (p + k) else Err OOB.
Definition pdiff (p q : Z) : res Z := if (p <? 0) || (q <? 0) then Err Precond else OK (p - q).
(* strchr(table, c): index of the first c in table followed by its NUL, or -1 *)
Fixpoint strchr_from (tbl : list Z) (c : Z) (i : Z) : Z :=
  match tbl with
  | [] => if c =? 0 then i else -1
  | x :: r => if x =? c then i else strchr_from r c (i + 1)
  end.
Definition strchr_ix (tbl : list Z) (c : Z) : Z := strchr_from tbl c 0.
(* dp - table for a dp returned by strchr *)
Definition tdiff (ix : Z) : res Z := if ix <? 0 then Err Precond else OK ix.
(* std::string::assign(ptr, n) *)
Definition substr (buf : list Z) (p n : Z) : res (list Z) :=
  if (0 <=? p) && (0 <=? n) && (p + n <=? blen buf) then OK (firstn (Z.to_nat n) (skipn (Z.to_nat p) buf)) else Err OOB.

"""


def run_unit(src, targets, out, prelude, prefix):
    global SRC
    SRC = src
    import ast_translate64 as A64
    known, done, failed, parts = {}, [], {}, [prelude]
    for fn in targets:
        try:
            defs = asts_of(fn)
        except Untranslatable as e:
            failed[fn] = str(e)
            parts.append("(* %s: not translated: %s *)\n\n" % (fn, e))
            continue
        for key, a in defs:
            try:
                f = Fn(key, a, known, prefix)
                text, info = f.translate()
                parts.append(text + "\n")
                known[key] = info
                done.append(key)
            except Untranslatable as e:
                failed[key] = str(e)
                parts.append("(* %s: not translated: %s *)\n\n" % (key, e))
    text = "".join(parts)
    if failed:
        if "--force" in sys.argv:
            open(out, "w").write(text)
        return {"written": False, "translated": done, "untranslated": failed, "kept_previous": True}
    changed = not os.path.exists(out) or open(out).read() != text
    if changed:
        open(out, "w").write(text)
    return {"written": changed, "translated": done, "untranslated": failed}


PRELUDE2 = PRELUDE.replace("SourcePosix.v", "SourceFmtParse.v").replace("src/time_zone_posix.cc", "src/time_zone_format.cc (ParseInt<int>, ParseInt<long>, ParseOffset, ParseSubSeconds)") \
    .replace("into the spec string", "into the input text").replace("From CCTZ Require Import Base.", "From CCTZ Require Import Base.\nFrom CCTZ Require Export SourcePosix.")


def main():
    coq = os.path.join(os.path.dirname(__file__), "..", "coq")
    out1 = sys.argv[1] if len(sys.argv) > 1 and not sys.argv[1].startswith("--") else os.path.join(coq, "SourcePosix.v")
    r1 = run_unit("src/time_zone_posix.cc", TARGETS, out1, PRELUDE, "sp_")
    out2 = os.path.join(os.path.dirname(out1), "SourceFmtParse.v")
    # the second file reuses the runtime definitions of the first (rd, padd, ...): only its header comment and import
    pre2 = PRELUDE2.split("Local Open Scope Z_scope.")[0] + "Local Open Scope Z_scope.\n" \
        "Definition tbl_get (l : list Z) (i : Z) : res Z :=\n" \
        "  if (0 <=? i) && (i <? Z.of_nat (length l)) then OK (nth (Z.to_nat i) l 0) else Err OOB.\n\n"
    r2 = run_unit(SRC2, TARGETS2, out2, pre2, "sf_")
    r1["format_cc"] = r2
    pre3 = pre2.replace("SourceFmtParse.v", "SourceDecode.v").replace("src/time_zone_format.cc (ParseInt<int>, ParseInt<long>, ParseOffset, ParseSubSeconds)", "src/time_zone_info.cc (Decode8, Decode32, Decode64)") \
        .replace("into the input text", "into the file's bytes") + "Definition narrow64 := chk64.\nDefinition narrow16 (z : Z) : res Z := if (-32768 <=? z) && (z <=? 32767) then OK z else Err Overflow.\n\n"
    r3 = run_unit(SRC3, TARGETS3, os.path.join(os.path.dirname(out1), "SourceDecode.v"), pre3, "sd_")
    r1["info_cc_decode"] = r3
    print(json.dumps(r1))


if __name__ == "__main__":
    main()
