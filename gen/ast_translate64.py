#!/usr/bin/env python3
"""Typed, statement-level translator: clang JSON AST -> Gallina (coq/Source64.v),
re-run on every check.  The output is a CHECKED 64-bit reading of the source:
every signed arithmetic operation goes through add64/sub64/mul64/neg64 (or the
32-bit forms for `int` arithmetic) of Base.v and yields `Err Overflow` where the
C++ operation would be undefined; every narrowing integral conversion goes
through narrow8/narrow32 (an out-of-range narrowing is treated as an error);
array subscripts are bounds-checked (tbl_get); `for (;;)` loops become
Fixpoints on explicit fuel (`Err Fuel` when exhausted).  All functions return
`res T`.

Covered C++ subset: parameters and locals of integral / bool / `fields` type,
const tables, assignments and compound assignments to locals and parameters,
prefix ++/--, if/else (joined on the tuple of variables assigned inside; a
branch that returns or breaks is continued with the rest of the block instead),
`for (;;)` with `break`, return, calls between translated functions (the
dispatch tag of step/difference/align goes into the name), member access on a
`fields` parameter, the .year()/.month()/.day() accessors of a civil-time
parameter, the usual operators, ?:, && and || (short-circuit kept).  Anything
else makes that function 'untranslated' (the previous Source64.v is kept and
the fact is recorded; not an alarm).

coq/Source64Proofs.v proves, for each function f, that whenever the
hand-written model f64 returns OK r the source-derived s64_f returns OK r.

Second part (tied in coq/Source64MoreProofs.v): the members of the class template
civil_time<T>, the relational operator templates and next_weekday/prev_weekday.
Templates are read through their INSTANTIATIONS: a fixed probe translation unit
(PROBE_TU below, written to a temporary directory) uses every member for each of
the six alignments and every relational operator for each of the 36 pairs; clang's
AST of that unit (one dump, so that declaration ids are consistent) is indexed and
each instantiated body is translated.  A civil_time<T> value is represented by its
only data member f_ (checked: one field, of type fields, defaulted copy operations);
a constructor becomes the function giving the constructed f_; a non-const member
function takes the object as `self` and returns the new object (paired with the
returned value when it returns by value); calls are resolved through the declaration
id clang recorded (overload resolution is clang's); a zero-argument library function
whose body is `return <integer constant expression>` (numeric_limits<long>::min) is
read as that constant; `for (init;; inc)` loops that can only be left by `return`
become Fixpoints returning the function result (separate loop fuel `lfuel`, the
function's `fuel` being passed unchanged to callees)."""
import json, os, re, shutil, subprocess, sys, tempfile

sys.path.insert(0, os.path.dirname(__file__))
from ast_translate import docs, WEEKDAYS, Untranslatable  # noqa: E402

REPO = os.environ.get("VERIF_REPO", "/repo")
HEADER = "include/cctz/civil_time_detail.h"
TARGETS = ["is_leap_year", "year_index", "days_per_century", "days_per_4years", "days_per_year", "days_per_month",
           "n_day", "n_mon", "n_hour", "n_min", "n_sec", "step", "scale_add", "ymd_ord", "day_difference",
           "difference", "align", "get_weekday", "get_yearday"]
TAGGED = ("step", "difference", "align")
FIELDS = {"y": "fy", "m": "fm", "d": "fd", "hh": "fhh", "mm": "fmm", "ss": "fss"}
ACCESSORS = {"year": "fy", "month": "fm", "day": "fd", "hour": "fhh", "minute": "fmm", "second": "fss"}
TRANSPARENT = ("ParenExpr", "ExprWithCleanups", "MaterializeTemporaryExpr", "ConstantExpr", "CXXBindTemporaryExpr")
CASTS = ("ImplicitCastExpr", "CXXStaticCastExpr", "CStyleCastExpr", "CXXFunctionalCastExpr")
WIDTH = {"long": 64, "long long": 64, "int": 32, "short": 16, "signed char": 8, "char": 8, "bool": 1}
ENUM_WIDTH = 32


CIVIL_TAGS = ["second", "minute", "hour", "day", "month", "year"]
SELF = "self"

INFO_CC = "src/time_zone_info.cc"
TARGETS2 = ["IsLeap", "ToPosixWeekday", "AllYearDST", "TransOffset"]      # src/time_zone_info.cc


def clang_docs(flt, path):
    r = subprocess.run(["clang++", "-std=c++11", "-fsyntax-only", "-I" + os.path.join(REPO, "include"),
                        "-I" + os.path.join(REPO, "src"), "-Xclang", "-ast-dump=json", "-Xclang", "-ast-dump-filter=" + flt,
                        os.path.join(REPO, path)], stdout=subprocess.PIPE, stderr=subprocess.DEVNULL, text=True)
    return docs(r.stdout)


def asts_of(fn, path=HEADER):
    out, seen = [], set()
    for d in clang_docs(fn, path):
        if d.get("kind") == "FunctionDecl" and d.get("name") == fn and d.get("id") not in seen \
                and any(c.get("kind") == "CompoundStmt" for c in d.get("inner", [])):
            seen.add(d.get("id"))
            out.append(d)
    if not out:
        raise Untranslatable("no definition of " + fn)
    return out


_GLOBALS = {}


def fold(n, path):
    """constant-fold an initialiser made of literals, other global constants and + - * : int, list, or None"""
    k = n.get("kind")
    if k in TRANSPARENT or k in CASTS:
        return fold(n["inner"][-1], path)
    if k == "IntegerLiteral":
        return int(n["value"])
    if k == "InitListExpr":
        vals = [fold(e, path) for e in n.get("inner", [])]
        return None if any(v is None for v in vals) else vals
    if k == "UnaryOperator" and n.get("opcode") == "-":
        v = fold(n["inner"][0], path)
        return None if not isinstance(v, int) else -v
    if k == "BinaryOperator" and n.get("opcode") in ("+", "-", "*"):
        a, b = fold(n["inner"][0], path), fold(n["inner"][1], path)
        if isinstance(a, int) and isinstance(b, int):
            return {"+": a + b, "-": a - b, "*": a * b}[n["opcode"]]
        return None
    if k == "DeclRefExpr" and n.get("referencedDecl", {}).get("kind") == "VarDecl":
        return global_const(n["referencedDecl"]["name"], path)
    return None


def global_const(name, path):
    """value of a namespace-scope const variable with a constant initialiser (int or nested list), else None"""
    key = (path, name)
    if key not in _GLOBALS:
        _GLOBALS[key] = None
        for d in clang_docs(name, path):
            if d.get("kind") == "VarDecl" and d.get("name") == name and d.get("inner") \
                    and "const" in d.get("type", {}).get("qualType", ""):
                _GLOBALS[key] = fold(d["inner"][-1], path)
                break
    return _GLOBALS[key]


_ENUMS = {}


def enum_value(ref, path):
    """value of an enumerator (declaration order, explicit initialisers honoured)"""
    ename = ref.get("type", {}).get("qualType", "").split("::")[-1]
    key = (path, ename)
    if key not in _ENUMS:
        vals = {}
        for d in clang_docs(ename, path):
            for m in walk(d):
                if m.get("kind") == "EnumDecl" and m.get("name") == ename:
                    nxt = 0
                    for c in m.get("inner", []):
                        if c.get("kind") == "EnumConstantDecl":
                            v = None
                            for q in walk(c):
                                if q.get("kind") == "ConstantExpr" and "value" in q:
                                    v = int(q["value"])
                                    break
                            if v is None:
                                v = nxt
                            vals[c["name"]] = v
                            nxt = v + 1
        _ENUMS[key] = vals
    if ref.get("name") not in _ENUMS[key]:
        raise Untranslatable("enumerator " + str(ref.get("name")))
    return _ENUMS[key][ref["name"]]


def tystr(t):
    s = t.get("desugaredQualType") or t.get("qualType") or ""
    return re.sub(r"\b(const|volatile)\b", "", s).replace("&", "").strip()


def width(n):
    s = tystr(n.get("type", {}))
    if s in WIDTH:
        return WIDTH[s]
    if re.search(r"\b(weekday|DateFormat)$", s) or s.startswith("enum "):
        return ENUM_WIDTH
    raise Untranslatable("type " + s)


def member_path(n):
    """(root parameter name, [member names]) of a MemberExpr chain, anonymous unions skipped; or None"""
    names = []
    while n.get("kind") == "MemberExpr":
        if n.get("name"):
            names.append(n["name"])
        n = n["inner"][0]
        while n.get("kind") in TRANSPARENT or n.get("kind") in CASTS:
            n = n["inner"][-1]
    if n.get("kind") == "DeclRefExpr" and n.get("referencedDecl", {}).get("kind") == "ParmVarDecl":
        return n["referencedDecl"]["name"], list(reversed(names))
    return None


def is_fields(n):
    return re.search(r"\bfields\b", n.get("type", {}).get("qualType", "")) is not None and "(" not in n.get("type", {}).get("qualType", "")


def is_civil(n):
    return re.search(r"civil_(time|second|minute|hour|day|month|year)", n.get("type", {}).get("qualType", "")) is not None


def tag_of(t):
    m = re.search(r"(\w+)_tag", t)
    return m.group(1) if m else None


def is_tag_type(t):
    """t: a type dictionary; is it one of the empty dispatch-tag structs (not a civil_time<..._tag>)"""
    return re.fullmatch(r"(?:struct )?(?:cctz::detail::)?\w+_tag", tystr(t)) is not None


def civil_tag(t):
    """alignment tag of a civil_time value type (type dictionary), or None"""
    for key in ("desugaredQualType", "qualType"):
        m = re.search(r"civil_time<(?:cctz::detail::)?(\w+)_tag>", t.get(key) or "")
        if m:
            return m.group(1)
    for key in ("desugaredQualType", "qualType"):
        m = re.search(r"\bcivil_(second|minute|hour|day|month|year)\b", t.get(key) or "")
        if m:
            return m.group(1)
    return None


def strip(n):
    """through parentheses, casts and copy-constructions down to the value-producing node"""
    while True:
        k = n.get("kind")
        if k in TRANSPARENT or k in CASTS:
            n = n["inner"][-1]
        elif k == "CXXConstructExpr" and len(n.get("inner", [])) == 1 and is_fields(n) and is_fields(n["inner"][0]):
            n = n["inner"][0]
        else:
            return n


def walk(n):
    if isinstance(n, dict):
        yield n
        for c in n.get("inner", []):
            yield from walk(c)


def lit(n):
    """value of an integer constant expression made of literals, or None"""
    n = strip(n) if n.get("kind") in TRANSPARENT + CASTS else n
    if n.get("kind") == "IntegerLiteral":
        return int(n["value"])
    if n.get("kind") == "DeclRefExpr" and n.get("referencedDecl", {}).get("kind") == "EnumConstantDecl" \
            and n["referencedDecl"].get("name") in WEEKDAYS:
        return WEEKDAYS[n["referencedDecl"]["name"]]
    if n.get("kind") == "UnaryOperator" and n.get("opcode") == "-":
        v = lit(n["inner"][0])
        return None if v is None else -v
    return None


def zl(v):
    return str(v) if v >= 0 else "(%d)" % v


class Fn:
    def __init__(self, ast, gname, known, path=HEADER, ctx=None):
        self.ast, self.gname, self.known, self.path = ast, gname, known, path   # known: key -> (gallina name, needs fuel, returns fields, returns bool)
        self.ctx = ctx or {}                                    # probe-unit context: known_ids, copy_assign, mutating, lib (see Probe)
        self.loops, self.loop_done, self.tmp = [], [], 0
        self.mutating, self.rtype = None, None                  # member functions: None (const / not a member), "self", "pair"
        self.struct_params = {}                                 # struct parameter -> sorted list of scalar member paths used
        self.gtables = {}                                       # global table name -> Gallina literal
        self.rec_vars = {}                                      # fields / civil parameters -> True
        self.bool_vars = set()
        self.tables = set()
        self.fuel = any(k.get("kind") in ("ForStmt", "WhileStmt") for k in walk(ast)) or any(
            (self.callee(k) or (0, False))[1] for k in walk(ast)
            if k.get("kind") in ("CallExpr", "CXXOperatorCallExpr", "CXXMemberCallExpr", "CXXConstructExpr", "CXXTemporaryObjectExpr"))

    def fresh(self):
        self.tmp += 1
        return "t%d" % self.tmp

    def vtype(self, v):
        return "fields" if v in self.rec_vars else "list Z" if v in self.tables else "bool" if v in self.bool_vars else "Z"

    # ---------------------------------------------------------------- calls
    def ctor_key(self, n):
        """which constructor a CXXConstructExpr of a civil_time<T> runs: 'copy', or the key of a translated constructor
        (decided by the constructor signature clang selected), else None"""
        if not is_civil(n) or is_fields(n):
            return None
        tag = civil_tag(n.get("type", {}))
        sig = n.get("ctorType", {}).get("qualType", "")
        args = [a for a in n.get("inner", []) if a.get("kind") != "CXXDefaultArgExpr"]
        if tag is None:
            return None
        if "preserves_data" in sig:
            src = civil_tag(args[0].get("type", {})) if len(args) == 1 else None
            return None if src is None else "convert_%s_%s" % (src, tag)
        if re.fullmatch(r"void \((?:const )?(?:cctz::detail::)?civil_time<(?:cctz::detail::)?%s_tag> &&?\)(?: noexcept)?" % tag, sig):
            return "copy"
        if re.fullmatch(r"void \((?:cctz::detail::)?fields\)(?: noexcept)?", sig):
            return "ctor_" + tag
        if len(args) == 6 and not any(is_civil(a) or is_fields(a) for a in args):
            return "construct_" + tag
        if not args and re.fullmatch(r"void \(\)(?: noexcept)?", sig):
            return "default_" + tag
        return None

    def call_parts(self, call):
        """(reference to the callee, object expression of a member call or None, argument expressions)"""
        if call.get("kind") == "CXXMemberCallExpr":
            me = call["inner"][0]
            while me.get("kind") in ("ImplicitCastExpr", "ParenExpr"):
                me = me["inner"][0]
            return {"id": me.get("referencedMemberDecl"), "name": me.get("name")}, (me.get("inner") or [None])[0], call["inner"][1:]
        c = call["inner"][0]
        while c.get("kind") in ("ImplicitCastExpr", "ParenExpr"):
            c = c["inner"][0]
        return c.get("referencedDecl", {}), None, call["inner"][1:]

    def callee_key(self, call):
        if call.get("kind") in ("CXXConstructExpr", "CXXTemporaryObjectExpr"):
            k = self.ctor_key(call)
            return None if k == "copy" else k
        ref = self.call_parts(call)[0]
        key = self.ctx.get("known_ids", {}).get(ref.get("id"))
        if key is not None:
            return key
        name = ref.get("name")
        if name is None:
            return None
        if name in TAGGED:
            return "%s_%s" % (name, tag_of(ref.get("type", {}).get("qualType", "")))
        return name

    def callee(self, call):
        key = self.callee_key(call)
        return None if key is None else self.known.get(key)

    def call(self, n, scope):
        key = self.callee_key(n)
        info = None if key is None else self.known.get(key)
        if info is None:
            raise Untranslatable("call of an untranslated function")
        gname, fuel, rf, rb = info
        if n.get("kind") in ("CXXConstructExpr", "CXXTemporaryObjectExpr"):
            obj, actual = None, [a for a in n.get("inner", []) if a.get("kind") != "CXXDefaultArgExpr"]
        else:
            _, obj, actual = self.call_parts(n)
        binds, args = [], []
        mut = key in self.ctx.get("mutating", {})
        if mut:
            if self.ctx["mutating"][key] != "self":
                raise Untranslatable("call of a member that returns a value and modifies its object")
            if obj is None:
                if not actual:
                    raise Untranslatable("member operator without an object")
                obj, actual = actual[0], actual[1:]
            b, t, comp = self.rec_expr(obj, scope)
            if b or comp or t != SELF:
                raise Untranslatable("modifying member called on something other than *this")
            args.append(SELF)
        elif obj is not None:
            raise Untranslatable("member call")
        for a in actual:
            if is_tag_type(a.get("type", {})):
                continue
            if is_fields(a) or is_civil(a):
                b, t, comp = self.rec_expr(a, scope)
                binds += b
                if comp:
                    x = self.fresh()
                    binds.append("do %s <- %s ;;\n" % (x, t))
                    self.rec_vars[x] = True
                    t = x
                args.append(t)
                continue
            b, t_, kd = self.expr(a, scope)
            binds += b
            args.append(self.as_z(t_, kd))
        term = "%s%s%s" % (gname, " fuel" if fuel else "", "".join(" " + a for a in args))
        if mut:
            return binds + ["do %s <- %s ;;\n" % (SELF, term)], SELF, "self", rb
        return binds, term, rf, rb

    # ---------------------------------------------------------------- record-valued expressions: (binds, term, is_computation)
    def rec_expr(self, n, scope):
        """a fields / civil_time<T> expression: term names the value (is_computation False) or is a `res fields` term"""
        k = n.get("kind")
        inner = n.get("inner", [])
        if k in TRANSPARENT:
            return self.rec_expr(inner[-1], scope)
        if k in CASTS:
            if n.get("castKind") in ("NoOp", "LValueToRValue", "ConstructorConversion"):
                return self.rec_expr(inner[-1], scope)
            raise Untranslatable("cast kind " + str(n.get("castKind")))
        if k == "DeclRefExpr":
            v = n.get("referencedDecl", {}).get("name")
            if v in self.rec_vars:
                return [], v, False
            raise Untranslatable("record value " + str(v))
        if k == "CXXThisExpr" and SELF in self.rec_vars:
            return [], SELF, False
        if k == "UnaryOperator" and n.get("opcode") == "*" and strip(inner[0]).get("kind") == "CXXThisExpr" and SELF in self.rec_vars:
            return [], SELF, False
        if k == "MemberExpr" and n.get("name") == "f_" and (is_civil(inner[0]) or strip(inner[0]).get("kind") == "CXXThisExpr"):
            return self.rec_expr(inner[0], scope)                       # a civil_time<T> is represented by its member f_
        if k in ("CXXConstructExpr", "CXXTemporaryObjectExpr", "InitListExpr"):
            args = [a for a in inner if a.get("kind") != "CXXDefaultArgExpr"]
            if is_fields(n):
                if len(args) == 1 and is_fields(args[0]):
                    return self.rec_expr(args[0], scope)                # copy / move of a fields
                if len(args) == 6:
                    binds, vals = [], []
                    for a in args:
                        b, t, kd = self.expr(a, scope)
                        binds += b
                        vals.append(self.as_z(t, kd))
                    return binds, "OK (mkF %s)" % " ".join(vals), True
                raise Untranslatable("construction of a fields")
            ck = self.ctor_key(n)
            if ck == "copy" and len(args) == 1:
                return self.rec_expr(args[0], scope)
            if ck is not None and ck != "copy":
                b, c, rf, rb = self.call(n, scope)
                return b, c, True
            raise Untranslatable("constructor " + n.get("ctorType", {}).get("qualType", "?"))
        if k in ("CallExpr", "CXXOperatorCallExpr", "CXXMemberCallExpr"):
            ref, obj, actual = self.call_parts(n)
            if ref.get("id") is not None and ref.get("id") in self.ctx.get("copy_assign", ()):
                tgt = actual[0] if obj is None else obj
                src = actual[1] if obj is None else actual[0]
                bt, tt, ct = self.rec_expr(tgt, scope)
                if bt or ct or tt != SELF:
                    raise Untranslatable("assignment to an object other than *this")
                b, t, comp = self.rec_expr(src, scope)
                return b + ["do %s <- %s ;;\n" % (SELF, t) if comp else "let %s := %s in\n" % (SELF, t)], SELF, False
            b, c, rf, rb = self.call(n, scope)
            if rf == "self":
                return b, c, False
            if not rf:
                raise Untranslatable("call that does not return a record")
            return b, c, True
        if k == "ConditionalOperator":
            bc, tc, kc = self.expr(inner[0], scope)
            arms = []
            for a in inner[1:3]:
                b, t, comp = self.rec_expr(a, scope)
                arms.append(self.comp(b, t, comp))
            return bc, "(if %s then (\n%s\n) else (\n%s\n))" % (self.as_b(tc, kc), arms[0], arms[1]), True
        raise Untranslatable("record expression of kind " + str(k))

    @staticmethod
    def comp(binds, term, is_comp):
        """the `res fields` term performing binds and yielding term"""
        if is_comp:
            return "".join(binds) + term
        if binds and binds[-1].startswith("do %s <- " % term) and binds[-1].endswith(" ;;\n"):
            return "".join(binds[:-1]) + binds[-1][len("do %s <- " % term):-len(" ;;\n")]
        return "".join(binds) + "OK %s" % term

    # ---------------------------------------------------------------- expressions: (binds, term, 'Z'|'bool')
    @staticmethod
    def as_z(t, kd):
        return "(b2z %s)" % t if kd == "bool" else t

    @staticmethod
    def as_b(t, kd):
        return t if kd == "bool" else "(negb (%s =? 0))" % t

    def block(self, binds, result):
        return "(" + "".join(binds) + result + ")"

    def expr(self, n, scope):
        k = n.get("kind")
        inner = n.get("inner", [])
        if k in TRANSPARENT:
            return self.expr(inner[-1], scope)
        if k in CASTS:
            ck = n.get("castKind")
            b, t, kd = self.expr(inner[-1], scope)
            if ck in ("LValueToRValue", "NoOp", "FunctionToPointerDecay", "ArrayToPointerDecay", "ConstructorConversion"):
                return b, t, kd
            if ck == "IntegralToBoolean":
                return b, self.as_b(t, kd), "bool"
            if ck == "IntegralCast":
                if kd == "bool":
                    return b, self.as_z(t, kd), "Z"
                src, dst = width(inner[-1]), width(n)
                if dst >= src:
                    return b, t, "Z"
                v = lit(inner[-1])
                if v is not None and -(1 << (dst - 1)) <= v < (1 << (dst - 1)):
                    return b, t, "Z"
                x = self.fresh()
                return b + ["do %s <- narrow%d %s ;;\n" % (x, dst, t)], x, "Z"
            raise Untranslatable("cast kind " + str(ck))
        if k == "IntegerLiteral":
            return [], zl(int(n["value"])), "Z"
        if k == "CXXBoolLiteralExpr":
            return [], "true" if n.get("value") else "false", "bool"
        if k == "DeclRefExpr":
            ref = n.get("referencedDecl", {})
            name = ref.get("name")
            if ref.get("kind") == "EnumConstantDecl" and name in WEEKDAYS and "weekday" in ref.get("type", {}).get("qualType", ""):
                return [], zl(WEEKDAYS[name]), "Z"
            if ref.get("kind") == "EnumConstantDecl":
                return [], zl(enum_value(ref, self.path)), "Z"
            if name in scope:
                return [], name, "bool" if name in self.bool_vars else "Z"
            if ref.get("kind") == "VarDecl":
                v = global_const(name, self.path)
                if isinstance(v, int):
                    return [], zl(v), "Z"
            raise Untranslatable("unknown name " + str(name))
        if k == "MemberExpr":
            obj = strip(inner[0])
            v = obj.get("referencedDecl", {}).get("name")
            if v in self.rec_vars and n.get("name") in FIELDS:
                return [], "(%s %s)" % (FIELDS[n["name"]], v), "Z"
            mp = member_path(n)
            if mp is not None and mp[0] in self.struct_params:
                width(n)
                return [], "%s_%s" % (mp[0], "_".join(mp[1])), "bool" if tystr(n.get("type", {})) == "bool" else "Z"
            raise Untranslatable("member access " + str(n.get("name")))
        if k == "CXXMemberCallExpr":
            me = inner[0]
            if me.get("kind") == "MemberExpr" and len(inner) == 1:
                v = strip(me["inner"][0]).get("referencedDecl", {}).get("name")
                if v in self.rec_vars and me.get("name") in ACCESSORS:
                    return [], "(%s %s)" % (ACCESSORS[me["name"]], v), "Z"
            if self.callee(n) is None:
                raise Untranslatable("member call")
            k = "CallExpr"
        if k == "UnaryOperator":
            op = n["opcode"]
            if op in ("++", "--"):
                raise Untranslatable("increment inside an expression")
            v = lit(n)
            if v is not None:
                return [], zl(v), "Z"
            b, t, kd = self.expr(inner[0], scope)
            if op == "!":
                return b, "(negb %s)" % self.as_b(t, kd), "bool"
            if op == "+":
                return b, self.as_z(t, kd), "Z"
            if op == "-":
                x = self.fresh()
                return b + ["do %s <- neg%d %s ;;\n" % (x, max(width(n), 32), self.as_z(t, kd))], x, "Z"
            raise Untranslatable("unary " + op)
        if k == "BinaryOperator":
            op = n["opcode"]
            if op in ("=", ","):
                raise Untranslatable("assignment inside an expression")
            if op in ("&&", "||"):
                b1, t1, k1 = self.expr(inner[0], scope)
                b2, t2, k2 = self.expr(inner[1], scope)
                t1, t2 = self.as_b(t1, k1), self.as_b(t2, k2)
                if not b2:
                    return b1, "(%s %s %s)" % (t1, op, t2), "bool"
                x = self.fresh()
                if op == "&&":
                    e = "(if %s then %s else OK false)" % (t1, self.block(b2, "OK %s" % t2))
                else:
                    e = "(if %s then OK true else %s)" % (t1, self.block(b2, "OK %s" % t2))
                return b1 + ["do %s <- %s ;;\n" % (x, e)], x, "bool"
            b1, t1, k1 = self.expr(inner[0], scope)
            b2, t2, k2 = self.expr(inner[1], scope)
            t1, t2 = self.as_z(t1, k1), self.as_z(t2, k2)
            if op in ("+", "-", "*"):
                w = width(n)
                if w not in (32, 64):
                    raise Untranslatable("arithmetic at width %d" % w)
                x = self.fresh()
                f = {"+": "add", "-": "sub", "*": "mul"}[op]
                return b1 + b2 + ["do %s <- %s%d %s %s ;;\n" % (x, f, w, t1, t2)], x, "Z"
            if op in ("/", "%"):
                v = lit(inner[1])
                if v is None or v <= 0:
                    raise Untranslatable("division by a non-constant or non-positive value")
                return b1 + b2, "(Z.%s %s %s)" % ("quot" if op == "/" else "rem", t1, t2), "Z"
            cmp = {"<": ("<?", 0), "<=": ("<=?", 0), "==": ("=?", 0), ">": ("<?", 1), ">=": ("<=?", 1)}
            if op in cmp:
                c, sw = cmp[op]
                a, b_ = (t2, t1) if sw else (t1, t2)
                return b1 + b2, "(%s %s %s)" % (a, c, b_), "bool"
            if op == "!=":
                return b1 + b2, "(negb (%s =? %s))" % (t1, t2), "bool"
            raise Untranslatable("binary " + op)
        if k == "ConditionalOperator":
            bc, tc, kc = self.expr(inner[0], scope)
            ba, ta, ka = self.expr(inner[1], scope)
            bb, tb, kb = self.expr(inner[2], scope)
            tc = self.as_b(tc, kc)
            kd = "bool" if ka == "bool" and kb == "bool" else "Z"
            if kd == "Z":
                ta, tb = self.as_z(ta, ka), self.as_z(tb, kb)
            if not ba and not bb:
                return bc, "(if %s then %s else %s)" % (tc, ta, tb), kd
            x = self.fresh()
            e = "(if %s then %s else %s)" % (tc, self.block(ba, "OK %s" % ta), self.block(bb, "OK %s" % tb))
            return bc + ["do %s <- %s ;;\n" % (x, e)], x, kd
        if k == "ArraySubscriptExpr":
            idxs, base = [], n
            while base.get("kind") == "ArraySubscriptExpr":
                idxs.append(base["inner"][1])
                base = strip(base["inner"][0])
            idxs.reverse()
            tname = base.get("referencedDecl", {}).get("name")
            if tname in self.tables and len(idxs) == 1:
                tref = tname
            else:
                v = global_const(tname, self.path) if base.get("referencedDecl", {}).get("kind") == "VarDecl" else None
                if not isinstance(v, list):
                    raise Untranslatable("subscript of " + str(tname))
                depth = 2 if v and isinstance(v[0], list) else 1
                if depth != len(idxs):
                    raise Untranslatable("partial subscript of " + str(tname))
                self.gtables[tname] = ("[" + "; ".join("[" + "; ".join(zl(x) for x in row) + "]" for row in v) + "]") if depth == 2 \
                    else "[" + "; ".join(zl(x) for x in v) + "]"
                tref = "g_" + tname
            binds, terms = [], []
            for ix in idxs:
                b, t, kd = self.expr(ix, scope)
                binds += b
                terms.append(self.as_z(t, kd))
            x = self.fresh()
            if len(terms) == 1:
                return binds + ["do %s <- tbl_get %s %s ;;\n" % (x, tref, terms[0])], x, "Z"
            return binds + ["do %s <- tbl_get2 %s %s %s ;;\n" % (x, tref, terms[0], terms[1])], x, "Z"
        if k in ("CallExpr", "CXXOperatorCallExpr"):
            if self.callee(n) is None and "lib_const" in self.ctx:
                ref, obj, actual = self.call_parts(n)
                v = self.ctx["lib_const"](ref.get("id")) if obj is None and not actual else None
                if v is not None:
                    return [], zl(v), "Z"
            b, c, rf, rb = self.call(n, scope)
            if rf:
                raise Untranslatable("fields-valued call inside an expression")
            x = self.fresh()
            return b + ["do %s <- %s ;;\n" % (x, c)], x, "bool" if rb else "Z"
        raise Untranslatable("expression kind " + str(k))

    def cond(self, n, scope):
        """condition of an if; prefix increments are hoisted in front of it"""
        pre = []

        def hoist(m):
            if isinstance(m, dict):
                if m.get("kind") == "UnaryOperator" and m.get("opcode") in ("++", "--") and not m.get("isPostfix"):
                    pre.append(json.loads(json.dumps(m)))
                    tgt = strip(m["inner"][0])
                    keep = {"kind": "DeclRefExpr", "referencedDecl": tgt.get("referencedDecl", {}), "type": m.get("type", {})}
                    m.clear()
                    m.update(keep)
                    return
                for c in m.get("inner", []):
                    hoist(c)
        n = json.loads(json.dumps(n))
        hoist(n)
        if len(pre) > 1:
            raise Untranslatable("several increments in one condition")
        binds = []
        for p in pre:
            binds += self.assign_stmt(p, scope)
        b, t, kd = self.expr(n, scope)
        return binds + b, self.as_b(t, kd)

    # ---------------------------------------------------------------- statements
    @staticmethod
    def body_list(st):
        if st is None:
            return []
        return list(st.get("inner", [])) if st.get("kind") == "CompoundStmt" else [st]

    def assigned(self, stmts, scope):
        out = []
        for st in stmts:
            for m in walk(st):
                v = None
                if m.get("kind") == "CompoundAssignOperator" or (m.get("kind") == "BinaryOperator" and m.get("opcode") == "="):
                    v = strip(m["inner"][0]).get("referencedDecl", {}).get("name")
                elif m.get("kind") == "UnaryOperator" and m.get("opcode") in ("++", "--"):
                    v = strip(m["inner"][0]).get("referencedDecl", {}).get("name")
                if v is not None and v in scope and v not in out:
                    out.append(v)
        return [v for v in scope if v in out]

    def used(self, stmts, scope):
        names = set()
        for st in stmts:
            for m in walk(st):
                if m.get("kind") == "DeclRefExpr":
                    names.add(m.get("referencedDecl", {}).get("name"))
        return [v for v in scope if v in names]

    def walk_own(self, n):
        """nodes of a statement, not descending into loops except for their return statements"""
        if isinstance(n, dict):
            yield n
            if n.get("kind") in ("ForStmt", "WhileStmt", "DoStmt"):
                for m in walk(n):
                    if m.get("kind") == "ReturnStmt":
                        yield m
                return
            for c in n.get("inner", []):
                yield from self.walk_own(c)

    def escapes(self, stmts):
        return any(m.get("kind") in ("ReturnStmt", "BreakStmt", "ContinueStmt") for st in stmts for m in self.walk_own(st))

    def always_escapes(self, stmts):
        if not stmts:
            return False
        last = stmts[-1]
        if last.get("kind") in ("ReturnStmt", "BreakStmt"):
            return True
        if last.get("kind") == "CompoundStmt":
            return self.always_escapes(self.body_list(last))
        if last.get("kind") == "IfStmt" and last.get("hasElse"):
            return self.always_escapes(self.body_list(last["inner"][1])) and self.always_escapes(self.body_list(last["inner"][2]))
        if last.get("kind") == "ForStmt" and self.return_only_loop(last):
            return True
        return False

    def own_breaks(self, n):
        """break statements that leave the loop whose body is n (not those of nested loops / switches)"""
        if isinstance(n, dict):
            if n.get("kind") == "BreakStmt":
                yield n
            if n.get("kind") in ("ForStmt", "WhileStmt", "DoStmt", "SwitchStmt", "CXXForRangeStmt"):
                return
            for c in n.get("inner", []):
                yield from self.own_breaks(c)

    def return_only_loop(self, st):
        """a `for (init;; inc)` (no condition) with a loop header and no break of its own: left only by return"""
        h = st["inner"]
        return len(h) == 5 and (h[0] or h[3]) and not h[1] and not h[2] and not any(True for _ in self.own_breaks(h[4]))

    @staticmethod
    def tup(vs):
        return vs[0] if len(vs) == 1 else "(%s)" % ", ".join(vs)

    @staticmethod
    def pat(vs):
        return vs[0] if len(vs) == 1 else "'(%s)" % ", ".join(vs)

    def assign_stmt(self, st, scope):
        """bindings that perform one assignment / compound assignment / prefix increment on a variable"""
        k = st.get("kind")
        tgt = strip(st["inner"][0])
        v = tgt.get("referencedDecl", {}).get("name")
        if tgt.get("kind") != "DeclRefExpr" or v not in scope or v in self.bool_vars:
            raise Untranslatable("assignment to " + str(v))
        lw = width(tgt)
        op = st.get("opcode")
        if k == "UnaryOperator":
            if op not in ("++", "--"):
                raise Untranslatable("expression statement")
            cw = max(lw, 32)
            x = self.fresh()
            out = ["do %s <- %s%d %s 1 ;;\n" % (x, "add" if op == "++" else "sub", cw, v)]
            if lw < cw:
                out.append("do %s <- narrow%d %s ;;\n" % (v, lw, x))
            else:
                out.append("let %s := %s in\n" % (v, x))
            return out
        b, t, kd = self.expr(st["inner"][1], scope)
        t = self.as_z(t, kd)
        if op == "=":
            return b + ["let %s := %s in\n" % (v, t)]
        cw = WIDTH.get(tystr(st.get("computeResultType", {})), None)
        if cw is None:
            raise Untranslatable("compound assignment type")
        if op in ("+=", "-=", "*="):
            if cw not in (32, 64):
                raise Untranslatable("arithmetic at width %d" % cw)
            f = {"+": "add", "-": "sub", "*": "mul"}[op[0]]
            if lw < cw:
                x = self.fresh()
                return b + ["do %s <- %s%d %s %s ;;\n" % (x, f, cw, v, t), "do %s <- narrow%d %s ;;\n" % (v, lw, x)]
            return b + ["do %s <- %s%d %s %s ;;\n" % (v, f, cw, v, t)]
        if op in ("/=", "%="):
            c = lit(st["inner"][1])
            if c is None or c <= 0:
                raise Untranslatable("division by a non-constant or non-positive value")
            return b + ["let %s := (Z.%s %s %s) in\n" % (v, "quot" if op == "/=" else "rem", v, t)]
        raise Untranslatable("assignment operator " + str(op))

    def fields_result(self, n, scope):
        """(binds, res-term) for a `fields` / civil_time<T> expression in return position"""
        b, t, comp = self.rec_expr(n, scope)
        if self.mutating == "pair":
            if comp:
                x = self.fresh()
                b, t = b + ["do %s <- %s ;;\n" % (x, t)], x
            return b, "OK (%s, %s)" % (t, SELF)
        if self.mutating == "self" and (comp or t != SELF):
            raise Untranslatable("member returning a reference to something other than *this")
        return [], self.comp(b, t, comp)

    def seq(self, stmts, scope, tail, ret_fields):
        if not stmts:
            if tail[0] == "fall":
                return "OK %s" % self.tup(tail[1])
            if tail[0] == "loop":
                return "%s fuel %s" % (tail[1], " ".join(tail[2] + tail[3]))
            if tail[0] == "retloop":
                return "%s fuel lfuel %s" % (tail[1], " ".join(tail[2] + tail[3]))
            raise Untranslatable("control reaches the end of a non-void function")
        st, rest = stmts[0], stmts[1:]
        k = st.get("kind")
        if k == "CompoundStmt":
            return self.seq(self.body_list(st) + rest, scope, tail, ret_fields)
        if k == "NullStmt":
            return self.seq(rest, scope, tail, ret_fields)
        if k == "DeclStmt":
            out, sc = "", list(scope)
            for vd in st.get("inner", []):
                if vd["kind"] != "VarDecl" or not vd.get("inner"):
                    raise Untranslatable("declaration without initialiser")
                init = vd["inner"][-1]
                name = vd["name"]
                if name in sc or name in self.tables:
                    raise Untranslatable("shadowing declaration of " + name)
                core = strip(init) if init.get("kind") in TRANSPARENT + CASTS else init
                if core.get("kind") == "InitListExpr":
                    vals = [lit(e) for e in core.get("inner", [])]
                    if any(v is None for v in vals):
                        raise Untranslatable("table with non-literal entries")
                    out += "let %s := [%s] in\n" % (name, "; ".join(zl(v) for v in vals))
                    self.tables.add(name)
                    continue
                if is_fields(vd) or is_civil(vd):
                    if "const" not in vd.get("type", {}).get("qualType", "") or "&" in vd.get("type", {}).get("qualType", ""):
                        raise Untranslatable("record local that is not a const value")
                    b, t, comp = self.rec_expr(init, sc)
                    out += "".join(b) + ("do %s <- %s ;;\n" % (name, t) if comp else "let %s := %s in\n" % (name, t))
                    self.rec_vars[name] = True
                    continue
                b, t, kd = self.expr(init, sc)
                if tystr(vd.get("type", {})) == "bool":
                    self.bool_vars.add(name)
                    out += "".join(b) + "let %s := %s in\n" % (name, self.as_b(t, kd))
                else:
                    out += "".join(b) + "let %s := %s in\n" % (name, self.as_z(t, kd))
                sc.append(name)
            return out + self.seq(rest, sc, tail, ret_fields)
        if k in ("CompoundAssignOperator", "BinaryOperator", "UnaryOperator"):
            return "".join(self.assign_stmt(st, scope)) + self.seq(rest, scope, tail, ret_fields)
        if k in ("CXXOperatorCallExpr", "CXXMemberCallExpr", "ExprWithCleanups") and (is_civil(st) or is_fields(st)):
            b, t, comp = self.rec_expr(st, scope)
            if comp:
                b = b + ["do _ <- %s ;;\n" % t]
            return "".join(b) + self.seq(rest, scope, tail, ret_fields)
        if k == "ReturnStmt":
            if ret_fields:
                b, r = self.fields_result(st["inner"][0], scope)
                return "".join(b) + r
            u = strip(st["inner"][0])
            if u.get("kind") == "CallExpr":
                b, c, rf, rb = self.call(u, scope)
                if rb == self.ret_bool:
                    return "".join(b) + c                                     # tail call
            b, t, kd = self.expr(st["inner"][0], scope)
            return "".join(b) + "OK %s" % (self.as_b(t, kd) if self.ret_bool else self.as_z(t, kd))
        if k == "BreakStmt":
            if tail[0] != "loop":
                raise Untranslatable("break outside a loop")
            return "OK %s" % self.tup(tail[3])
        if k == "IfStmt":
            cb, c = self.cond(st["inner"][0], scope)
            pre = "".join(cb)
            th = self.body_list(st["inner"][1])
            el = self.body_list(st["inner"][2]) if st.get("hasElse") else []
            if self.escapes(th) or self.escapes(el):
                a = self.seq(th if self.always_escapes(th) else th + rest, scope, tail, ret_fields)
                b = self.seq(el if self.always_escapes(el) else el + rest, scope, tail, ret_fields)
                return "%sif %s then (\n%s\n) else (\n%s\n)" % (pre, c, a, b)
            vs = self.assigned(th + el, scope)
            if not vs:
                raise Untranslatable("if without effect")
            a = self.seq(th, scope, ("fall", vs), ret_fields)
            b = self.seq(el, scope, ("fall", vs), ret_fields)
            return "%sdo %s <- (if %s then (\n%s\n) else (\n%s\n)) ;;\n%s" % (
                pre, self.pat(vs), c, a, b, self.seq(rest, scope, tail, ret_fields))
        if k == "SwitchStmt":
            cb, ct, ckd = self.expr(st["inner"][0], scope)
            body = self.body_list(st["inner"][-1])
            arms = []
            for cs_ in body:
                if cs_.get("kind") != "CaseStmt" or len(cs_.get("inner", [])) != 2 or "value" not in cs_["inner"][0]:
                    raise Untranslatable("switch arm that is not a single `case K: stmt`")
                stmts_ = self.body_list(cs_["inner"][1])
                if not stmts_ or stmts_[-1].get("kind") not in ("BreakStmt", "ReturnStmt"):
                    raise Untranslatable("switch arm that falls through")
                arms.append((int(cs_["inner"][0]["value"]), stmts_))
            sel = self.as_z(ct, ckd)
            if all(a[-1].get("kind") == "BreakStmt" and not self.escapes(a[:-1]) for _, a in arms):
                vs = self.assigned([x for _, a in arms for x in a], scope)
                if not vs:
                    raise Untranslatable("switch without effect")
                chain = "OK %s" % self.tup(vs)
                for val, a in reversed(arms):
                    chain = "if %s =? %s then (\n%s\n) else (\n%s\n)" % (sel, zl(val), self.seq(a[:-1], scope, ("fall", vs), ret_fields), chain)
                return "%sdo %s <- (%s) ;;\n%s" % ("".join(cb), self.pat(vs), chain, self.seq(rest, scope, tail, ret_fields))
            # arms that return: each arm continues with the rest of the block unless it always escapes
            chain = self.seq(rest, scope, tail, ret_fields)
            for val, a in reversed(arms):
                a2 = a[:-1] if a[-1].get("kind") == "BreakStmt" else a
                chain = "if %s =? %s then (\n%s\n) else (\n%s\n)" % (
                    sel, zl(val), self.seq(a2 if self.always_escapes(a2) else a2 + rest, scope, tail, ret_fields), chain)
            return "".join(cb) + chain
        if k == "ForStmt" and self.return_only_loop(st):
            # for (init;; inc) body, left only by `return`: a Fixpoint on its own fuel returning the function result;
            # the statements after it are unreachable
            init, inc, body = st["inner"][0], st["inner"][3], self.body_list(st["inner"][4])
            if rest:
                raise Untranslatable("statements after a loop that has no break")
            if any(m.get("kind") == "ContinueStmt" for b_ in body for m in walk(b_)):
                raise Untranslatable("continue in a loop with an increment")
            if init:
                if init.get("kind") != "DeclStmt":
                    raise Untranslatable("for-init that is not a declaration")
                return self.seq([init, {"kind": "\0loop", "st": st}], scope, tail, ret_fields)
            raise Untranslatable("for loop with an increment but no declaration")
        if k == "\0loop":
            st = st["st"]
            inc, body = st["inner"][3], self.body_list(st["inner"][4])
            body = body + ([inc] if inc else [])
            env = list(self.rec_vars) + list(scope) + sorted(self.tables)
            stv = self.assigned(body, scope)
            ro = [v for v in self.used(body, env) if v not in stv]
            lname = "%s_loop%d" % (self.gname, len(self.loops) + 1)
            self.loops.append(None)
            idx = len(self.loops) - 1
            saved_tables = set(self.tables)
            btxt = self.seq(body, scope, ("retloop", lname, ro, stv), ret_fields)
            self.tables = saved_tables
            self.loops[idx] = (len(self.loop_done), "Fixpoint %s (fuel : nat) (lfuel : nat) %s {struct lfuel} : res %s :=\n  match lfuel with\n  | O => Err Fuel\n  | S lfuel =>\n%s\n  end.\n\n"
                               % (lname, " ".join("(%s : %s)" % (v, self.vtype(v)) for v in ro + stv), self.rtype, btxt))
            self.loop_done.append(idx)
            return "%s fuel fuel %s" % (lname, " ".join(ro + stv))
        if k == "ForStmt":
            if any(h for h in st["inner"][:4]):
                raise Untranslatable("for loop with a header")
            body = self.body_list(st["inner"][4])
            stv = self.assigned(body, scope)
            ro = [v for v in self.used(body, scope) if v not in stv]
            lname = "%s_loop%d" % (self.gname, len(self.loops) + 1)
            self.loops.append(None)
            idx = len(self.loops) - 1
            saved_tables = set(self.tables)
            btxt = self.seq(body, scope, ("loop", lname, ro, stv), ret_fields)
            self.tables = saved_tables
            self.loops[idx] = (len(self.loop_done), "Fixpoint %s (fuel : nat) %s {struct fuel} : res (%s) :=\n  match fuel with\n  | O => Err Fuel\n  | S fuel =>\n%s\n  end.\n\n"
                               % (lname, " ".join("(%s : Z)" % v for v in ro + stv), " * ".join(["Z"] * len(stv)), btxt))
            self.loop_done.append(idx)
            return "do %s <- %s fuel %s ;;\n%s" % (self.pat(stv), lname, " ".join(ro + stv),
                                                    self.seq(rest, scope, tail, ret_fields))
        raise Untranslatable("statement " + str(k))

    def translate(self):
        params, scope, body, inits = [], [], None, []
        kind = self.ast.get("kind")
        member = kind in ("CXXMethodDecl", "CXXConstructorDecl")
        ftype = self.ast.get("type", {}).get("qualType", "")
        if kind == "CXXMethodDecl" and self.ast.get("storageClass") != "static":
            self.rec_vars[SELF] = True
            params.append("(%s : fields)" % SELF)
        for c in self.ast.get("inner", []):
            if c["kind"] == "ParmVarDecl":
                t = c.get("type", {}).get("qualType", "")
                if is_tag_type(c.get("type", {})):
                    continue
                p = c.get("name")
                if p is None:
                    if member:
                        continue                                      # an unnamed parameter cannot be read: operator++(int), preserves_data<>*
                    raise Untranslatable("unnamed parameter")
                if p == SELF or p in ("fuel", "lfuel"):
                    raise Untranslatable("parameter named " + p)
                if is_fields(c) or is_civil(c):
                    self.rec_vars[p] = True
                    params.append("(%s : fields)" % p)
                elif re.search(r"\b(PosixTransition|PosixTimeZone)\b", t):
                    paths = {}
                    for m in walk(self.ast):
                        if m.get("kind") == "MemberExpr":
                            mp = member_path(m)
                            if mp is not None and mp[0] == p and tystr(m.get("type", {})) in WIDTH or \
                                    (mp is not None and mp[0] == p and re.search(r"DateFormat$", tystr(m.get("type", {})))):
                                paths["_".join(mp[1])] = tystr(m.get("type", {})) == "bool"
                    self.struct_params[p] = sorted(paths)
                    for q in sorted(paths):
                        nm = "%s_%s" % (p, q)
                        params.append("(%s : %s)" % (nm, "bool" if paths[q] else "Z"))
                        if paths[q]:
                            self.bool_vars.add(nm)
                elif tystr(c.get("type", {})) == "bool":
                    self.bool_vars.add(p)
                    params.append("(%s : bool)" % p)
                    scope.append(p)
                else:
                    width(c)
                    params.append("(%s : Z)" % p)
                    scope.append(p)
            elif c["kind"] == "CompoundStmt":
                body = c
            elif c["kind"] == "CXXCtorInitializer":
                inits.append(c)
        rt = ftype.split("(")[0].strip()
        if rt == "auto" and "->" in ftype:
            rt = ftype.split("->")[-1].strip()
        ret_fields = re.search(r"\bfields\b", rt) is not None or (member or self.ctx != {}) and civil_tag({"qualType": rt}) is not None
        self.ret_bool = rt == "bool"
        if kind == "CXXConstructorDecl":
            # the function giving the member f_ of the constructed object
            if len(inits) != 1 or len(inits[0].get("inner", [])) != 1 or self.body_list(body):
                raise Untranslatable("constructor that is not one initialiser and an empty body")
            ini = inits[0]
            if not ("delegatingInit" in ini or ini.get("anyInit", {}).get("name") == "f_"):
                raise Untranslatable("constructor initialiser")
            ret_fields, self.rtype = True, "fields"
            b, t, comp = self.rec_expr(ini["inner"][0], scope)
            term = self.comp(b, t, comp)
        else:
            if kind == "CXXMethodDecl" and SELF in self.rec_vars and not re.search(r"\)\s*const\b", ftype):
                if not ret_fields:
                    raise Untranslatable("modifying member that does not return an object")
                self.mutating = "self" if rt.endswith("&") else "pair"
            self.rtype = "(fields * fields)" if self.mutating == "pair" else "fields" if ret_fields else ("bool" if self.ret_bool else "Z")
            term = self.seq(self.body_list(body), scope, ("none",), ret_fields)
        term = "".join("let g_%s := %s in\n" % (g, v) for g, v in sorted(self.gtables.items())) + term
        text = "".join(t for _, t in sorted(self.loops))
        text += "Definition %s %s%s : res %s :=\n%s.\n" % (
            self.gname, "(fuel : nat) " if self.fuel else "", " ".join(params), self.rtype, term)
        return text, ret_fields


# ---------------------------------------------------------------------------------------------------------------
# Second part: templates, through the instantiations of a probe translation unit

PROBE_TU = r"""#include "cctz/civil_time_detail.h"
namespace verif_probe {
using namespace cctz::detail;
template <typename A> void use_one(cctz::diff_t n) {
  A a(1, 2, 3, 4, 5, 6);
  A b;
  a = a + n; a = n + a; a = a - n; n = a - b;
  a += n; a -= n; ++a; a++; --a; a--;
  a = (A::max)(); a = (A::min)();
}
template <typename A, typename B> void use_two() {
  A a; B b;
  bool r = a < b; r = a <= b; r = a >= b; r = a > b; r = a == b; r = a != b;
  (void)r;
  A c(b); (void)c;
}
template <typename A> void use_row() {
  use_two<A, civil_second>(); use_two<A, civil_minute>(); use_two<A, civil_hour>();
  use_two<A, civil_day>(); use_two<A, civil_month>(); use_two<A, civil_year>();
}
void all() {
  use_one<civil_second>(0); use_one<civil_minute>(0); use_one<civil_hour>(0);
  use_one<civil_day>(0); use_one<civil_month>(0); use_one<civil_year>(0);
  use_row<civil_second>(); use_row<civil_minute>(); use_row<civil_hour>();
  use_row<civil_day>(); use_row<civil_month>(); use_row<civil_year>();
  civil_day d; d = next_weekday(d, weekday::monday); d = prev_weekday(d, weekday::monday);
}
}
"""
ROLE_ORDER = ["ctor", "default", "construct", "convert", "plus", "plus_rev", "minus", "diff", "add_assign", "sub_assign",
              "pre_inc", "post_inc", "pre_dec", "post_dec", "max", "min"]
RELATIONAL = [("operator<", "lt"), ("operator<=", "le"), ("operator>=", "ge"), ("operator>", "gt"), ("operator==", "eq"), ("operator!=", "ne")]
WALKS = ["next_weekday", "prev_weekday"]


def has_body(d):
    return any(c.get("kind") == "CompoundStmt" for c in d.get("inner", []))


def fold_lit(n):
    """value of an integer constant expression made of literals, casts, unary - and + - *, or None"""
    k = n.get("kind")
    if k in TRANSPARENT or k in CASTS:
        return fold_lit(n["inner"][-1])
    if k == "IntegerLiteral":
        return int(n["value"])
    if k == "UnaryOperator" and n.get("opcode") == "-":
        v = fold_lit(n["inner"][0])
        return None if v is None else -v
    if k == "BinaryOperator" and n.get("opcode") in ("+", "-", "*"):
        a, b = fold_lit(n["inner"][0]), fold_lit(n["inner"][1])
        if a is None or b is None:
            return None
        return {"+": a + b, "-": a - b, "*": a * b}[n["opcode"]]
    return None


class Probe:
    """clang's AST of PROBE_TU (one dump: declaration ids are consistent), indexed"""

    def __init__(self):
        tmp = tempfile.mkdtemp(prefix="verif_probe_")
        try:
            src = os.path.join(tmp, "probe.cc")
            open(src, "w").write(PROBE_TU)
            r = subprocess.run(["clang++", "-std=c++11", "-fsyntax-only", "-I" + os.path.join(REPO, "include"),
                                "-Xclang", "-ast-dump=json", src], stdout=subprocess.PIPE, stderr=subprocess.PIPE, text=True)
        finally:
            shutil.rmtree(tmp, ignore_errors=True)
        if r.returncode != 0 or not r.stdout.strip():
            raise Untranslatable("the probe unit does not compile: " + r.stderr.strip().split("\n")[0][:200])
        self.tu = json.loads(r.stdout)
        self.detail = []
        for ns in self.tu.get("inner", []):
            if ns.get("kind") == "NamespaceDecl" and ns.get("name") == "cctz":
                self.detail += [d for d in ns.get("inner", []) if d.get("kind") == "NamespaceDecl" and d.get("name") == "detail"]
        if not self.detail:
            raise Untranslatable("namespace cctz::detail not found")
        self.by_id = None
        self._lib = {}

    def top(self, kind, name):
        return [d for ns in self.detail for d in ns.get("inner", []) if d.get("kind") == kind and d.get("name") == name]

    def lib_const(self, did):
        """value of a zero-argument function outside the translated set whose body is `return <constant>`, else None"""
        if did is None:
            return None
        if self.by_id is None:
            self.by_id = {}
            for d in walk(self.tu):
                if d.get("kind") in ("CXXMethodDecl", "FunctionDecl") and has_body(d):
                    self.by_id[d.get("id")] = d
        if did not in self._lib:
            v, d = None, self.by_id.get(did)
            if d is not None and not any(c.get("kind") == "ParmVarDecl" for c in d.get("inner", [])):
                body = [c for c in d["inner"] if c.get("kind") == "CompoundStmt"][0].get("inner", [])
                if len(body) == 1 and body[0].get("kind") == "ReturnStmt" and body[0].get("inner"):
                    v = fold_lit(body[0]["inner"][0])
            self._lib[did] = v
        return self._lib[did]

    # ---- the class template civil_time<T>
    def specializations(self):
        out = {}
        for ct in self.top("ClassTemplateDecl", "civil_time"):
            for sp in ct.get("inner", []):
                if sp.get("kind") == "ClassTemplateSpecializationDecl" and sp.get("inner"):
                    targs = [c for c in sp["inner"] if c.get("kind") == "TemplateArgument"]
                    tag = tag_of(targs[0].get("type", {}).get("qualType", "")) if len(targs) == 1 else None
                    if tag in CIVIL_TAGS and tag not in out and any(c.get("kind") == "FieldDecl" for c in sp["inner"]):
                        out[tag] = sp
        return out

    @staticmethod
    def check_representation(sp):
        """civil_time<T> = its member f_: one field, of type fields; copy construction / assignment defaulted.
        Returns the ids of the copy-assignment operators."""
        flds = [c for c in sp["inner"] if c.get("kind") == "FieldDecl"]
        if len(flds) != 1 or flds[0].get("name") != "f_" or not is_fields(flds[0]):
            raise Untranslatable("civil_time is not exactly one member f_ of type fields")
        if any(c.get("kind") == "CXXRecordDecl" and not c.get("isImplicit") for c in sp["inner"]) or \
                any(b for b in sp.get("bases", [])):
            raise Untranslatable("civil_time has bases or nested classes")
        ids = []
        for c in sp["inner"]:
            sig = c.get("type", {}).get("qualType", "")
            if c.get("kind") == "CXXConstructorDecl" and re.search(r"^void \((const )?[\w:]*civil_time<[\w:]+> &&?\)", sig):
                if c.get("explicitlyDefaulted") != "default" and not c.get("isImplicit"):
                    raise Untranslatable("user-written copy constructor")
            if c.get("kind") == "CXXMethodDecl" and c.get("name") == "operator=":
                if c.get("explicitlyDefaulted") != "default" and not c.get("isImplicit"):
                    raise Untranslatable("user-written assignment operator")
                ids.append(c.get("id"))
            if c.get("kind") == "CXXDestructorDecl" and not c.get("isImplicit") and c.get("explicitlyDefaulted") != "default":
                raise Untranslatable("user-written destructor")
        return ids

    @staticmethod
    def check_accessors(sp):
        """year() .. second() return f_.y .. f_.ss (the translator reads the accessors as the fields)"""
        seen = set()
        for c in sp["inner"]:
            if c.get("kind") == "CXXMethodDecl" and c.get("name") in ACCESSORS:
                body = [x for x in c.get("inner", []) if x.get("kind") == "CompoundStmt"]
                ok = False
                if body and len(body[0].get("inner", [])) == 1 and body[0]["inner"][0].get("kind") == "ReturnStmt":
                    e = strip(body[0]["inner"][0]["inner"][0])
                    if e.get("kind") == "MemberExpr" and FIELDS.get(e.get("name")) == ACCESSORS[c["name"]]:
                        o = strip(e["inner"][0])
                        ok = o.get("kind") == "MemberExpr" and o.get("name") == "f_" and strip(o["inner"][0]).get("kind") == "CXXThisExpr"
                if not ok:
                    raise Untranslatable("accessor %s() is not `return f_.<field>`" % c["name"])
                seen.add(c["name"])
        if seen != set(ACCESSORS):
            raise Untranslatable("accessors missing")

    @staticmethod
    def members(sp, tag):
        """[(role, key, declaration)] of the instantiated members of civil_time<tag>"""
        out = []

        def nparams(d):
            return [c for c in d.get("inner", []) if c.get("kind") == "ParmVarDecl"]
        for c in sp["inner"]:
            k, nm = c.get("kind"), c.get("name")
            if k == "CXXConstructorDecl" and has_body(c):
                ps = nparams(c)
                if c.get("explicitlyDefaulted") or c.get("isImplicit"):
                    continue
                if len(ps) == 6:
                    out.append(("construct", "construct_" + tag, c))
                elif len(ps) == 0:
                    out.append(("default", "default_" + tag, c))
                elif len(ps) == 1 and is_fields(ps[0]):
                    out.append(("ctor", "ctor_" + tag, c))
                else:
                    out.append(("?", "constructor %s" % c.get("type", {}).get("qualType"), c))
            elif k == "FunctionTemplateDecl" and nm == "civil_time":
                for i in c.get("inner", []):
                    if i.get("kind") == "CXXConstructorDecl" and has_body(i) and any(x.get("kind") == "TemplateArgument" for x in i["inner"]):
                        ps = nparams(i)
                        src = civil_tag(ps[0].get("type", {})) if ps else None
                        if src in CIVIL_TAGS and src != tag:
                            out.append(("convert", "convert_%s_%s" % (src, tag), i))
                        else:
                            out.append(("?", "constructor template instance %s" % i.get("type", {}).get("qualType"), i))
            elif k == "CXXMethodDecl" and has_body(c) and not c.get("explicitlyDefaulted") and nm not in ACCESSORS:
                ps = nparams(c)
                role = {("operator+=", 1): "add_assign", ("operator-=", 1): "sub_assign", ("operator++", 0): "pre_inc",
                        ("operator++", 1): "post_inc", ("operator--", 0): "pre_dec", ("operator--", 1): "post_dec",
                        ("max", 0): "max", ("min", 0): "min"}.get((nm, len(ps)))
                out.append((role, "%s_%s" % (role, tag), c) if role else ("?", "member %s" % nm, c))
            elif k == "FriendDecl":
                for f in c.get("inner", []):
                    if f.get("kind") == "FunctionDecl" and has_body(f):
                        ps = nparams(f)
                        shape = tuple("c" if is_civil(q) else "z" for q in ps)
                        role = {("operator+", ("c", "z")): "plus", ("operator+", ("z", "c")): "plus_rev",
                                ("operator-", ("c", "z")): "minus", ("operator-", ("c", "c")): "diff"}.get((f.get("name"), shape))
                        out.append((role, "%s_%s" % (role, tag), f) if role else ("?", "friend %s" % f.get("name"), f))
        out.sort(key=lambda x: (ROLE_ORDER.index(x[0]) if x[0] in ROLE_ORDER else len(ROLE_ORDER),
                                CIVIL_TAGS.index(tag_of(x[1].split("_")[1] + "_tag")) if x[0] == "convert" else 0))
        return out


def probe_section(known, done, failed, lines):
    try:
        pr = Probe()
        specs = pr.specializations()
        missing = [t for t in CIVIL_TAGS if t not in specs]
        if missing:
            raise Untranslatable("no instantiation of civil_time<%s_tag>" % missing[0])
        ctx = {"known_ids": {}, "copy_assign": set(), "mutating": {}, "lib_const": pr.lib_const}
        plan = []
        for tag in CIVIL_TAGS:
            ctx["copy_assign"].update(pr.check_representation(specs[tag]))
            pr.check_accessors(specs[tag])
            for role, key, d in pr.members(specs[tag], tag):
                if role == "?":
                    failed[key] = "member outside the translated set"
                    continue
                ctx["known_ids"][d.get("id")] = key
                plan.append((key, d))
    except (Untranslatable, ValueError, OSError) as e:
        failed["civil_time"] = str(e) or type(e).__name__
        return
    lines.append("(* ---- civil_time<T> members (instantiations for the six alignments), relational operators,\n"
                 "   next_weekday / prev_weekday: read from clang's AST of the probe unit in gen/ast_translate64.py.\n"
                 "   A civil_time<T> is its member f_; a constructor is the function giving f_; a modifying member takes\n"
                 "   the object as self and returns the new object (with the returned value first when it returns by value). ---- *)\n")
    for key, d in plan:
        try:
            f = Fn(d, "s64_" + key, known, HEADER, ctx)
            text, rf = f.translate()
            lines.append(text)
            known[key] = ("s64_" + key, f.fuel, rf, f.ret_bool)
            if f.mutating:
                ctx["mutating"][key] = f.mutating
            done.append(key)
        except Untranslatable as e:
            failed[key] = str(e)
            lines.append("(* %s: not translated: %s *)\n" % (key, e))
    # relational operator templates: every instantiation is translated; they must all read the same
    rel = []
    for name, key in RELATIONAL:
        insts = [i for t in pr.top("FunctionTemplateDecl", name) for i in t.get("inner", [])
                 if i.get("kind") == "FunctionDecl" and has_body(i) and any(x.get("kind") == "TemplateArgument" for x in i["inner"])]
        for i in insts:
            ctx["known_ids"][i.get("id")] = key
        rel.append((name, key, insts))
    for name, key, insts in rel:
        try:
            if not insts:
                raise Untranslatable("no instantiation of " + name)
            texts = {}
            for i in insts:
                f = Fn(i, "s64_" + key, known, HEADER, ctx)
                text, rf = f.translate()
                texts.setdefault(text, []).append(i)
                info = ("s64_" + key, f.fuel, rf, f.ret_bool)
            if len(texts) != 1:
                raise Untranslatable("the instantiations of %s do not all read the same" % name)
            lines.append("(* %s: %d instantiations, one reading *)\n%s" % (name, len(insts), list(texts)[0]))
            known[key] = info
            done.append(key)
        except Untranslatable as e:
            failed[key] = str(e)
            lines.append("(* %s: not translated: %s *)\n" % (key, e))
    for fn in WALKS:
        try:
            ds = [d for d in pr.top("FunctionDecl", fn) if has_body(d)]
            if len(ds) != 1:
                raise Untranslatable("no single definition of " + fn)
            f = Fn(ds[0], "s64_" + fn, known, HEADER, ctx)
            text, rf = f.translate()
            lines.append(text)
            known[fn] = ("s64_" + fn, f.fuel, rf, f.ret_bool)
            done.append(fn)
        except Untranslatable as e:
            failed[fn] = str(e)
            lines.append("(* %s: not translated: %s *)\n" % (fn, e))


def main():
    out = sys.argv[1] if len(sys.argv) > 1 else os.path.join(os.path.dirname(__file__), "..", "coq", "Source64.v")
    lines = ["(* Source64.v - GENERATED by gen/ast_translate64.py from clang's AST of /repo's current",
             "   include/cctz/civil_time_detail.h on every run.  Do not edit.  A checked reading of the",
             "   source: signed arithmetic through add64/sub64/mul64/neg64 (32-bit forms for `int`),",
             "   narrowing conversions through narrow8/narrow32, subscripts through tbl_get (bounds-checked), loops on",
             "   explicit fuel; / and % truncate. *)",
             "From CCTZ Require Import Base Cal.", "Local Open Scope Z_scope.",
             "Definition b2z (b : bool) : Z := if b then 1 else 0.",
             "Definition tbl_get (l : list Z) (i : Z) : res Z :=",
             "  if (0 <=? i) && (i <? Z.of_nat (length l)) then OK (nth (Z.to_nat i) l 0) else Err OOB.",
             "Definition tbl_get2 (l : list (list Z)) (i j : Z) : res Z :=",
             "  if (0 <=? i) && (i <? Z.of_nat (length l)) then tbl_get (nth (Z.to_nat i) l []) j else Err OOB.", ""]
    known, done, failed = {}, [], {}
    for fn, path in [(t, HEADER) for t in TARGETS] + [(t, INFO_CC) for t in TARGETS2]:
        try:
            asts = asts_of(fn, path)
        except Untranslatable as e:
            failed[fn] = str(e)
            continue
        if path != HEADER and fn == TARGETS2[0]:
            lines.append("(* ---- src/time_zone_info.cc ---- *)\n")
        for a in asts:
            key = fn
            if fn in TAGGED:
                tag = None
                for c in a.get("inner", []):
                    if c["kind"] == "ParmVarDecl":
                        tag = tag_of(c.get("type", {}).get("qualType", ""))
                        break
                key = "%s_%s" % (fn, tag)
            try:
                f = Fn(a, "s64_" + key, known, path)
                text, rf = f.translate()
                lines.append(text)
                known[key] = ("s64_" + key, f.fuel, rf, f.ret_bool)
                done.append(key)
            except Untranslatable as e:
                failed[key] = str(e)
                lines.append("(* %s: not translated: %s *)\n" % (key, e))
    probe_section(known, done, failed, lines)
    text = "\n".join(lines) + "\n"
    if failed:
        print(json.dumps({"written": False, "translated": done, "untranslated": failed, "kept_previous": True}))
        if "--force" in sys.argv:
            open(out, "w").write(text)
        return
    changed = not os.path.exists(out) or open(out).read() != text
    if changed:
        open(out, "w").write(text)
    print(json.dumps({"written": changed, "translated": done, "untranslated": failed}))


if __name__ == "__main__":
    main()
