#!/bin/sh
# Builds the extracted-model driver: coq/model.ml(i) (written by Extract.v) + ocaml/*.ml
set -e
cd "$(dirname "$0")"
mkdir -p .cache/ocaml
cp coq/model.ml coq/model.mli ocaml/driver_zone.ml ocaml/driver.ml .cache/ocaml/
cd .cache/ocaml
ocamlfind ocamlopt -O2 -w -a model.mli model.ml driver_zone.ml driver.ml -o driver 2>/dev/null || \
ocamlfind ocamlopt -w -a model.mli model.ml driver_zone.ml driver.ml -o driver
