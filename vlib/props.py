"""Per-property registry and the generic check runner."""
import json, os, sys, time
from . import common as C
from . import gen_civil, gen_posix, gen_zone, gen_fmt, gen_sched

REGISTRY = {}


def reg(pid, **kw):
    REGISTRY[pid] = kw


def corpus_cases(pid):
    d = os.path.join(C.VERIF, "corpus", pid)
    out = []
    if os.path.isdir(d):
        for fn in sorted(os.listdir(d)):
            if fn.endswith(".cases"):
                out += [l for l in open(os.path.join(d, fn)).read().split("\n") if l and not l.startswith("#")]
    return out


def op_histogram(cases):
    h = {}
    for c in cases:
        k = c.split(" ", 1)[0]
        h[k] = h.get(k, 0) + 1
    return h


def zone_hex(case, zones):
    a = case.split()
    if len(a) > 1:
        for zid, data in zones:
            if zid == a[1]:
                return data.hex()
    return None


def sanitizer_text(case, work, harness_kw=None, env=None):
    """re-run one case alone and return what the sanitizers printed"""
    try:
        har, _ = C.build_harness(**(harness_kw or {}))
        cp = os.path.join(work, "one.cases")
        with open(cp, "w") as f:
            f.write(case.split("  #K=")[0] + "\n")
        C.run_exe(har, cp, os.path.join(work, "one.out"), env=env)
        return open(os.path.join(work, "one.out.err")).read()[-3000:]
    except Exception as e:
        return "(could not re-run: %s)" % e


def run_cases(pid, cases, work, harness_kw=None, env=None, interleave=False):
    """Build both sides from the current tree and run them.  Returns
    (impl_lines, drv_lines, failures, buildinfo) or raises RuntimeError."""
    drv, dlog = C.build_driver()
    if drv is None:
        raise RuntimeError("driver build failed:\n" + dlog[-3000:])
    har, hlog = C.build_harness(**(harness_kw or {}))
    if har is None:
        raise RuntimeError("harness build failed (does /repo compile?):\n" + hlog[-3000:])
    impl, fails = C.run_sharded(har, cases, work, "impl", env=env, interleave=interleave)
    drvl, dfails = C.run_sharded(drv, cases, work, "drv", env=env, interleave=interleave)
    if dfails:
        raise RuntimeError("model driver aborted: %r" % (dfails[:2],))
    return impl, drvl, fails, {"driver": dlog if dlog in ("cached", "built") else "built", "harness": hlog if hlog in ("cached", "built") else "built"}


def run_property(pid, spec, tier, seed, work, t0, replay=None, no_prove=False):
    if "custom" in spec and not replay:
        return spec["custom"](pid, spec, tier, seed, work, t0, no_prove)
    rng = C.Rng(seed * 1000003 + sum(map(ord, pid)))
    known = C.load_known(pid)

    # ---- replay mode -------------------------------------------------
    if replay:
        rp = json.load(open(replay))
        cases = rp.get("cases") or [rp["case"]]
        renv = None
        zh = rp.get("zone_bytes_hex")
        if zh:
            # the replay carries the bytes of the zone its case names
            zt = os.path.join(work, "replay_zones.txt")
            gen_zone.write_table(zt, [(cases[0].split()[1], bytes.fromhex(zh))])
            renv = {"VERIF_ZONES": zt}
        impl, drvl, fails, _ = run_cases(pid, cases, work, spec.get("harness_kw"), env=renv)
        for c, i, d in zip(cases, impl, drvl):
            print("case :", c)
            print("impl :", i)
            print("model:", d)
        v = C.compare(cases, impl, drvl, fails, spec.get("norm"))
        bad = v.prop_fail or v.corr_fail
        print("RESULT:", "still failing" if bad else "passes now")
        return 1 if bad else 0

    # ---- 1. proofs against regenerated constants ---------------------
    const_status = C.regen_constants()
    gate = C.grep_gate()
    if no_prove:
        pr = {"obligations": ["(skipped)"], "discharged": [], "failed": [], "axioms": {}, "log": ""}
    else:
        pr = C.prove(pid)
    stale = C.stale_ties(const_status, pid)
    if stale and not no_prove:
        pr["failed"] = list(pr["failed"]) + ["source-translation: " + x for x in stale]
    proof_ok = (not pr["failed"]) and (not gate) and len(pr["obligations"]) > 0

    # ---- 2./3. build both sides, generate, run -----------------------
    cases = corpus_cases(pid)
    n_corpus = len(cases)
    g = spec["gen"](tier, rng)
    env = None
    zones = []
    if isinstance(g, tuple):
        g, zones = g
        zt = os.path.join(work, "zones.txt")
        gen_zone.write_table(zt, zones)
        env = {"VERIF_ZONES": zt}
    cases += g
    try:
        impl, drvl, fails, binfo = run_cases(pid, cases, work, spec.get("harness_kw"), env=env, interleave=(not zones and spec.get("interleave", True)))
    except RuntimeError as e:
        p = C.write_replay(pid, {"property": pid, "kind": "build-failure", "detail": str(e)[-4000:]})
        print(str(e)[-2000:])
        print("VIOLATION property=%s replay=%s no-failing-input-found" % (pid, p))
        C.write_evidence(pid, tier, seed, {"obligations": max(1, len(pr["obligations"])), "discharged": len(pr["discharged"]),
                         "checker_cmd": "coqc (make -C coq) + Print Assumptions", "trusted_base": C.TRUSTED_BASE,
                         "explanation": "build failure"}, time.time() - t0, 1)
        return 1
    v = C.compare(cases, impl, drvl, fails, spec.get("norm"), ub_is_violation=spec.get("ub_is_violation", False), model_err_is_violation=spec.get("model_err_is_violation", False))
    if "post" in spec:
        for (i, why) in spec["post"](cases, impl):
            v.prop_fail.append((i, cases[i], impl[i], "", "", why))
    if spec.get("sched_phase"):
        # "loading a name again returns a time_zone equal to the first one": also when the first loads race
        sv = sched_identity_phase(tier, seed, work)
        if sv is None:
            p = C.write_replay(pid, {"property": pid, "kind": "build-failure", "detail": "thread harness"})
            print("VIOLATION property=%s replay=%s no-failing-input-found" % (pid, p))
            return 1
        v.prop_fail += sv.prop_fail
        v.corr_fail += sv.corr_fail

    # ---- 3b. two builds that differ only in how automatic variables are
    #          pre-filled must agree on every output (C12, thorough tier) ---
    two_note = {}
    if spec.get("two_builds") and (tier == "thorough" or os.environ.get("VERIF_TWO_BUILDS")):
        outs = []
        for fill in ("zero", "pattern"):
            hb, hl = C.build_harness(variant="plain", extra_flags=["-ftrivial-auto-var-init=" + fill])
            if hb is None:
                two_note["build_" + fill] = "failed"
                break
            o, _f = C.run_sharded(hb, cases, work, "fill_" + fill, env=env)
            outs.append(o)
        if len(outs) == 2:
            diffs = [i for i, (x, y) in enumerate(zip(outs[0], outs[1])) if x != y]
            two_note["auto_var_init_differences"] = len(diffs)
            for i in diffs[:50]:
                v.prop_fail.append((i, cases[i], outs[0][i] + " <zero-fill | pattern-fill> " + outs[1][i], "", "",
                                    "outputs differ between -ftrivial-auto-var-init=zero and =pattern builds: an uninitialised value influences behaviour"))

    # ---- 4. decide ---------------------------------------------------
    rc = 0
    violations = 0
    reported_known = set()
    new_prop = []
    for item in v.prop_fail:
        e = C.match_known(known, item[1])
        if e:
            if e["id"] not in reported_known:
                reported_known.add(e["id"])
                print("KNOWN-FINDING: property=%s %s" % (pid, e["what"]))
        else:
            new_prop.append(item)
    new_corr = [it for it in v.corr_fail if not C.match_known(known, it[1])]
    if new_prop:
        # smallest case line first: a crude but effective minimisation
        new_prop.sort(key=lambda it: (len(it[1]), it[0]))
        idx, case, il, M, S, why = new_prop[0]
        p = C.write_replay(pid, {"property": pid, "kind": "failing-input", "seed": seed, "tier": tier,
                                 "case": case, "zone_bytes_hex": zone_hex(case, zones), "implementation": il, "model": M, "specification": S, "why": why,
                                 "others": [it[1] for it in new_prop[1:20]],
                                 "sanitizer": sanitizer_text(case, work, spec.get("harness_kw"), env),
                                 "replay_cmd": "./check %s --replay <this file>" % pid})
        print("failing input: %s\n  implementation: %s\n  specification:  %s\n  (%s; %d such cases)" % (case, il, S, why, len(new_prop)))
        print("VIOLATION property=%s replay=%s" % (pid, p))
        rc, violations = 1, len(new_prop)
    elif new_corr or not proof_ok:
        # the proof or the correspondence no longer checks, but no case
        # contradicts the specification: searched = every generated case above
        detail = {"property": pid, "kind": "unchecked", "seed": seed, "tier": tier,
                  "failed_theorems": pr["failed"], "forbidden_vernacular": gate,
                  "coq_log_tail": pr["log"][-3000:],
                  "correspondence_mismatches": [{"case": it[1], "implementation": it[2], "model": it[3], "specification": it[4], "why": it[5]} for it in new_corr[:20]],
                  "searched_cases": len(cases), "in_domain_cases": v.in_domain}
        p = C.write_replay(pid, detail)
        if not proof_ok:
            print("proof obligations not discharged:", pr["failed"] or gate or "none registered")
            print(pr["log"][-1500:])
        for it in new_corr[:5]:
            print("correspondence mismatch: %s\n  impl : %s\n  model: %s   (%s)" % (it[1], it[2], it[3], it[5]))
        print("VIOLATION property=%s replay=%s no-failing-input-found" % (pid, p))
        rc, violations = 1, max(1, len(new_corr))

    # ---- 5. evidence -------------------------------------------------
    in_dom = set()
    for c, dl in zip(cases, drvl):
        if dl.endswith("P 1"):
            in_dom.add(c)
    samples = []
    for k in range(0, len(cases), max(1, len(cases) // 6)):
        samples.append({"case": cases[k], "implementation": impl[k], "model": drvl[k]})
    cov = {
        "obligations": max(1, len(pr["obligations"])),
        "discharged": len(pr["discharged"]),
        "theorems": pr["obligations"],
        "failed_theorems": pr["failed"],
        "assumptions_printed": pr["axioms"],
        "checker_cmd": "make -C /verif/coq (coqc 8.16.1, full .vo) ; coqc Properties_%s.v ; Print Assumptions under each theorem" % pid,
        "trusted_base": C.TRUSTED_BASE,
        "constants_tie": const_status,
        "evaluations": len(cases),
        "distinct_nontrivial": len(in_dom),
        "rule": spec.get("rule", "cases are generated by vlib generators (boundary stream + structured + malformed); a case is non-trivial when the extracted model places it inside the property's domain (P=1); distinct = distinct case lines"),
        "samples": samples[:8],
        "input_distribution": op_histogram(cases),
        "corpus_cases": n_corpus,
        "in_domain": v.in_domain,
        "model_error_cases": v.model_err,
        "ubsan_reports": v.ub,
        "notes": v.notes,
        "correspondence_mismatches": len(v.corr_fail),
        "known_findings_hit": sorted(reported_known),
        "builds": binfo,
        "exhaustive": bool(spec.get("exhaustive", {}).get(tier, False)),
        "two_build_comparison": two_note,
    }
    certs = [dl for c, dl in zip(cases, drvl) if c.startswith("cert ")]
    if certs:
        cov["certificates"] = {"zones": len(certs),
                               "zone_ok_true": sum(1 for x in certs if "zone_ok=1" in x),
                               "table_sorted_true": sum(1 for x in certs if "sorted=1" in x),
                               "c01_whole_domain_true": sum(1 for x in certs if "c01_whole_domain=1" in x),
                               "whole_domain_true": sum(1 for x in certs if " whole_domain=1" in x),
                               "whole_domain_note": "c01_whole_domain = wf_ast && c01_domain (hypotheses of c01_whole); whole_domain adds footer_below_day && table_gaps_ok (hypotheses of c02_whole, c03_whole, c06_whole): the boolean hypotheses of the end-to-end theorems evaluated by the extracted model on the bytes of each zone of this run",
                               "note": "zone_ok / table_sorted are the boolean hypotheses of the refinement and selection theorems, evaluated by the extracted model on each zone it loaded"}
    cov.update(spec.get("extra_cov", {}))
    C.write_evidence(pid, tier, seed, cov, time.time() - t0, violations, spec.get("assumptions", []))
    if rc == 0:
        print("OK property=%s tier=%s cases=%d in_domain=%d theorems=%d/%d wall=%.1fs" % (
            pid, tier, len(cases), v.in_domain, len(pr["discharged"]), len(pr["obligations"]), time.time() - t0))
    return rc


# ----------------------------------------------------------------------------
reg("C04", gen=gen_civil.gen_c04, harness_kw={"variant": "ubsan"})   # pure arithmetic: UBSan only (cheap forks)
reg("C05", gen=gen_civil.gen_c05, harness_kw={"variant": "ubsan"})
reg("C17", gen=gen_civil.gen_c17, exhaustive={"thorough": True}, harness_kw={"variant": "ubsan"})
reg("C15", gen=gen_civil.gen_c15_helpers, exhaustive={"quick": True, "thorough": True}, sched_phase=True)
reg("C16", gen=gen_posix.gen_c16)
reg("C01", gen=gen_zone.gen_c01)
reg("C02", gen=gen_zone.gen_c02)
reg("C03", gen=gen_zone.gen_c03)
reg("C06", gen=gen_zone.gen_c06, post=gen_zone.post_c06)
reg("C11", gen=gen_zone.gen_c11, post=gen_zone.post_c11)
reg("C10", gen=gen_zone.gen_c10, ub_is_violation=True)
reg("C12", gen=gen_zone.gen_c12, ub_is_violation=True, model_err_is_violation=True, two_builds=True)
reg("C14", gen=gen_zone.gen_c14, post=gen_zone.post_c14, sched_phase=True)
reg("C07", gen=gen_fmt.gen_c07)
reg("C08", gen=gen_fmt.gen_c08, ub_is_violation=True)
reg("C09", gen=gen_fmt.gen_c09, ub_is_violation=True)
reg("C18", gen=gen_fmt.gen_c18, ub_is_violation=False)


# ----------------------------------------------------------------------------
# C13 / C20: schedules (separate thread harness; TSan stress for C13)

def sched_zones():
    from . import tzif
    import os
    a = open(os.path.join(tzif.ZONEINFO, "America/New_York"), "rb").read()
    b = open(os.path.join(tzif.ZONEINFO, "Asia/Tokyo"), "rb").read()
    return [("A", a), ("B", b), ("X", b"TZif-broken" + b"\0" * 60)]


def sched_identity_phase(tier, seed, work):
    """a sample of the C13 loader schedules (thread harness vs the model's exec), for C14's identity clause"""
    rng = C.Rng(seed * 7919 + 14)
    cases = gen_sched.schedules("quick", rng, "sched")
    cases = cases[:: max(1, len(cases) // (600 if tier == "quick" else 3000))]
    zt = os.path.join(work, "szones.txt")
    gen_zone.write_table(zt, sched_zones())
    env = {"VERIF_ZONES": zt}
    drv, _d = C.build_driver()
    har, _h = C.build_harness(harness_src="thr_harness.cc")
    if drv is None or har is None:
        return None
    impl, fails = C.run_sharded(har, [c.split(" ", 1)[1] for c in cases], work, "simpl", env=env)
    drvl, _f = C.run_sharded(drv, cases, work, "sdrv", env=env)
    return C.compare(cases, impl, drvl, fails)


def run_sched(pid, spec, tier, seed, work, t0, no_prove):
    import subprocess
    rng = C.Rng(seed * 7919 + sum(map(ord, pid)))
    known = C.load_known(pid)
    const_status = C.regen_constants()
    gate = C.grep_gate()
    pr = {"obligations": ["(skipped)"], "discharged": [], "failed": [], "axioms": {}, "log": ""} if no_prove else C.prove(pid)
    stale = C.stale_ties(const_status, pid)
    if stale and not no_prove:
        pr["failed"] = list(pr["failed"]) + ["source-translation: " + x for x in stale]
    proof_ok = (not pr["failed"]) and (not gate) and len(pr["obligations"]) > 0
    op = "sched20" if pid == "C20" else "sched"
    cases = corpus_cases(pid) + gen_sched.schedules(tier, rng, op)
    zones = sched_zones()
    zt = os.path.join(work, "zones.txt")
    gen_zone.write_table(zt, zones)
    env = {"VERIF_ZONES": zt}
    drv, dlog = C.build_driver()
    har, hlog = C.build_harness(harness_src="thr_harness.cc")
    if drv is None or har is None:
        p = C.write_replay(pid, {"property": pid, "kind": "build-failure", "detail": (dlog or "")[-2000:] + (hlog or "")[-2000:]})
        print("VIOLATION property=%s replay=%s no-failing-input-found" % (pid, p))
        return 1
    # the thread harness takes bare schedules (without the op word)
    bare = [c.split(" ", 1)[1] for c in cases]
    impl, fails = C.run_sharded(har, bare, work, "impl", env=env)
    drvl, dfails = C.run_sharded(drv, cases, work, "drv", env=env)
    v = C.compare(cases, impl, drvl, fails)
    use_n = 0
    if pid == "C13":
        # "and use": queries on a shared zone made by different threads (each query on a thread of
        # its own, so every hidden hint was left by ANOTHER thread) must give the stateless answer
        ucases, uzones = gen_zone.gen_c14("quick" if tier == "quick" else "thorough", C.Rng(seed * 31 + 13))
        ucases = [("x" + c[1:]) for c in ucases if c.startswith("hbt ") or c.startswith("hmt ")]
        ucases = ucases[:12000] if tier == "quick" else ucases[:: max(1, len(ucases) // 150000)]   # one thread per query: keep it bounded
        uzt = os.path.join(work, "uzones.txt")
        gen_zone.write_table(uzt, uzones)
        uenv = {"VERIF_ZONES": uzt}
        uhar, ulog = C.build_harness()
        if uhar is None:
            p = C.write_replay(pid, {"property": pid, "kind": "build-failure", "detail": (ulog or "")[-2000:]})
            print("VIOLATION property=%s replay=%s no-failing-input-found" % (pid, p))
            return 1
        uimpl, ufails = C.run_sharded(uhar, ucases, work, "uimpl", env=uenv)
        udrv, _uf = C.run_sharded(drv, ucases, work, "udrv", env=uenv)
        uv = C.compare(ucases, uimpl, udrv, ufails)
        v.prop_fail += uv.prop_fail
        v.corr_fail += uv.corr_fail
        use_n = len(ucases)
        zones = zones + [z for z in uzones if any(it[1].split()[1] == z[0] for it in uv.prop_fail[:3])]
    # ThreadSanitizer stress (C13 only)
    tsan_note = {}
    tsan_bad = None
    if pid == "C13":
        th, tlog = C.build_harness(variant="tsan", harness_src="thr_harness.cc")
        if th is None:
            tsan_note = {"tsan_build": "failed: " + (tlog or "")[-300:]}
        else:
            runs = [(seed * 10 + i, n, it) for i, (n, it) in enumerate([(4, 300), (16, 150), (64, 40)] if tier == "quick" else [(4, 3000), (16, 1500), (64, 600), (64, 600), (32, 1500)])]
            e = dict(os.environ)
            e.update(env)
            e["TSAN_OPTIONS"] = "halt_on_error=0:second_deadlock_stack=1:exitcode=66"
            e["TZDIR"] = os.path.join(C.REPO, "testdata", "zoneinfo")
            e["TZ"] = "America/Chicago"
            # cold starts first: the very first uses of the library overlap (fresh process each time)
            for i in range(12 if tier == "quick" else 60):
                n = (2, 3, 4, 8)[i % 4]
                r = subprocess.run(["timeout", "120", th, "coldstart", str(seed * 100 + i), str(n)], env=e, stdout=subprocess.PIPE, stderr=subprocess.PIPE, text=True)
                if r.returncode == 124 and "ThreadSanitizer" not in r.stderr:
                    # the run did not finish in time on this machine: inconclusive, recorded, not an alarm
                    tsan_note["coldstart_timeouts"] = tsan_note.get("coldstart_timeouts", 0) + 1
                    continue
                if "ThreadSanitizer" in r.stderr or r.returncode != 0:
                    tsan_bad = {"seed": seed * 100 + i, "threads": n, "iters": 0, "rc": r.returncode, "report": r.stderr[-4000:], "mode": "coldstart"}
                    break
            tsan_note["coldstart_runs"] = (12 if tier == "quick" else 60) if tsan_bad is None else "stopped at the first report"
            for (sd, n, it) in (runs if tsan_bad is None else []):
                r = subprocess.run(["timeout", "600", th, "stress", str(sd), str(n), str(it)], env=e, stdout=subprocess.PIPE, stderr=subprocess.PIPE, text=True)
                tsan_note["stress_%d_%d_%d" % (sd, n, it)] = "rc=%d" % r.returncode
                if "ThreadSanitizer" in r.stderr or "VALUE-MISMATCH" in r.stderr or r.returncode != 0:
                    tsan_bad = {"seed": sd, "threads": n, "iters": it, "rc": r.returncode, "report": r.stderr[-4000:]}
                    break
            # the same stress on the uninstrumented build: far more lookups per second, for the VALUE checks
            # (answers on a shared zone must equal the single-threaded reference whatever other threads do)
            if tsan_bad is None:
                ph, plog = C.build_harness(variant="plain", harness_src="thr_harness.cc")
                if ph is None:
                    tsan_note["plain_build"] = "failed: " + (plog or "")[-300:]
                else:
                    for (sd, n, it) in ([(seed * 10 + 7, 8, 4000)] if tier == "quick" else [(seed * 10 + 7, 8, 40000), (seed * 10 + 8, 32, 10000)]):
                        r = subprocess.run(["timeout", "600", ph, "stress", str(sd), str(n), str(it)], env=e, stdout=subprocess.PIPE, stderr=subprocess.PIPE, text=True)
                        tsan_note["plain_stress_%d_%d_%d" % (sd, n, it)] = "rc=%d" % r.returncode
                        if "VALUE-MISMATCH" in r.stderr or r.returncode != 0:
                            tsan_bad = {"seed": sd, "threads": n, "iters": it, "rc": r.returncode, "report": r.stderr[-4000:], "build": "plain"}
                            break
    rc, violations = 0, 0
    reported = set()
    new_prop = []
    for item in v.prop_fail:
        e = C.match_known(known, item[1])
        if e:
            if e["id"] not in reported:
                reported.add(e["id"])
                print("KNOWN-FINDING: property=%s %s" % (pid, e["what"]))
        else:
            new_prop.append(item)
    new_corr = [it for it in v.corr_fail if not C.match_known(known, it[1])]
    if tsan_bad:
        p = C.write_replay(pid, {"property": pid, "kind": "data-race", "stress": tsan_bad,
                                 "replay_cmd": "<tsan thr_harness> stress %d %d %d" % (tsan_bad["seed"], tsan_bad["threads"], tsan_bad["iters"])})
        print("ThreadSanitizer report (seed %d, %d threads):\n%s" % (tsan_bad["seed"], tsan_bad["threads"], tsan_bad["report"][-1500:]))
        print("VIOLATION property=%s replay=%s" % (pid, p))
        rc, violations = 1, 1
    elif new_prop:
        new_prop.sort(key=lambda it: (len(it[1]), it[0]))
        idx, case, il, M, S, why = new_prop[0]
        p = C.write_replay(pid, {"property": pid, "kind": "failing-schedule", "seed": seed, "tier": tier, "case": case,
                                 "implementation": il, "model": M, "specification": S, "why": why,
                                 "zones": {z: d.hex() for z, d in zones}})
        print("failing schedule: %s\n  implementation: %s\n  specification:  %s\n  (%s; %d such)" % (case, il, S, why, len(new_prop)))
        print("VIOLATION property=%s replay=%s" % (pid, p))
        rc, violations = 1, len(new_prop)
    elif new_corr or not proof_ok:
        p = C.write_replay(pid, {"property": pid, "kind": "unchecked", "failed_theorems": pr["failed"], "forbidden_vernacular": gate,
                                 "coq_log_tail": pr["log"][-3000:],
                                 "correspondence_mismatches": [{"case": it[1], "implementation": it[2], "model": it[3], "why": it[5]} for it in new_corr[:20]]})
        if not proof_ok:
            print("proof obligations not discharged:", pr["failed"] or gate or "none registered")
            print(pr["log"][-1500:])
        for it in new_corr[:5]:
            print("correspondence mismatch: %s\n  impl : %s\n  model: %s   (%s)" % (it[1], it[2], it[3], it[5]))
        print("VIOLATION property=%s replay=%s no-failing-input-found" % (pid, p))
        rc, violations = 1, max(1, len(new_corr))
    samples = [{"schedule": cases[k], "implementation": impl[k], "model": drvl[k]} for k in range(0, len(cases), max(1, len(cases) // 6))][:8]
    cov = {"obligations": max(1, len(pr["obligations"])), "discharged": len(pr["discharged"]), "theorems": pr["obligations"],
           "failed_theorems": pr["failed"], "assumptions_printed": pr["axioms"],
           "checker_cmd": "make -C /verif/coq ; coqc Properties_%s.v ; Print Assumptions" % pid,
           "trusted_base": C.TRUSTED_BASE + ["thread harness with a parking zone_info_source_factory; ThreadSanitizer (g++ -fsanitize=thread)"],
           "constants_tie": const_status, "evaluations": len(cases), "distinct_nontrivial": len(set(cases)),
           "rule": "every interleaving of Start/Release events of k loader threads (k<=3 quick, <=4 thorough) over name assignments from {valid A, valid B, invalid X, fixed-offset, UTC}, followed by random repeat loads; each schedule executed in a fresh process and compared with the model's exec; non-trivial = distinct schedule",
           "samples": samples, "schedules": len(cases), "cross_thread_use_queries": use_n, "tsan": tsan_note, "correspondence_mismatches": len(v.corr_fail),
           "known_findings_hit": sorted(reported), "exhaustive": True}
    C.write_evidence(pid, tier, seed, cov, time.time() - t0, violations,
                     ["std::mutex / std::atomic / function-local statics behave as the C++ memory model says", "the data source is a function of the name"])
    if rc == 0:
        print("OK property=%s tier=%s schedules=%d theorems=%d/%d wall=%.1fs" % (pid, tier, len(cases), len(pr["discharged"]), len(pr["obligations"]), time.time() - t0))
    return rc


reg("C13", custom=run_sched)
reg("C20", custom=run_sched)


# ----------------------------------------------------------------------------
# C19: name resolution under a matrix of environments (child processes)

def py_zone_path(tzdir, name):
    """only used to decide WHICH paths to measure for the fs oracle"""
    rest = name[5:] if name.startswith(b"file:") else name
    if rest.startswith(b"/"):
        path = rest
    else:
        d = tzdir if tzdir else b"/usr/share/zoneinfo"
        path = d + b"/" + rest
    return path.split(b"\0")[0]


def measure(path):
    try:
        with open(path, "rb") as f:
            return f.read()
    except IsADirectoryError:
        return b""
    except Exception:
        return None


def run_c19(pid, spec, tier, seed, work, t0, no_prove):
    import subprocess, shutil, tempfile
    from . import tzif
    rng = C.Rng(seed * 31337 + 19)
    const_status = C.regen_constants()
    gate = C.grep_gate()
    pr = {"obligations": ["(skipped)"], "discharged": [], "failed": [], "axioms": {}, "log": ""} if no_prove else C.prove(pid)
    stale = C.stale_ties(const_status, pid)
    if stale and not no_prove:
        pr["failed"] = list(pr["failed"]) + ["source-translation: " + x for x in stale]
    proof_ok = (not pr["failed"]) and (not gate) and len(pr["obligations"]) > 0
    root = tempfile.mkdtemp(prefix="verif_c19_")
    try:
        tzroot = os.path.join(root, "tz")
        os.makedirs(os.path.join(tzroot, "Zone"))
        ny = open(os.path.join(tzif.ZONEINFO, "America/New_York"), "rb").read()
        tk = open(os.path.join(tzif.ZONEINFO, "Asia/Tokyo"), "rb").read()
        open(os.path.join(tzroot, "Zone", "A"), "wb").write(ny)
        open(os.path.join(tzroot, "B"), "wb").write(tk)
        open(os.path.join(tzroot, "trunc"), "wb").write(ny[:100])
        open(os.path.join(tzroot, "right"), "wb").write(tzif.write_tzif(b"2", [0], [0], [(3600, 0, 0)], b"XXX\0", b"XXX-1", leapcnt=1))
        open(os.path.join(tzroot, "unreadable"), "wb").write(tk)
        os.chmod(os.path.join(tzroot, "unreadable"), 0)
        open(os.path.join(tzroot, "localtime"), "wb").write(tk)
        absA = os.path.join(tzroot, "Zone", "A").encode()
        absB = os.path.join(tzroot, "B").encode()
        TZDIRS = [None, b"", tzroot.encode(), os.path.join(root, "nonexistent").encode(), os.path.join(tzif.ZONEINFO).encode()]
        TZS = [None, b"", b"B", b":B", b"localtime", b":localtime", b"::B", b"No/Such", b":" + absB, absA, b"UTC", b"Fixed/UTC+05:30:00", b"file:B"]
        LTS = [None, absB, os.path.join(root, "missing").encode(), b"Zone/A"]
        NAMES = [b"Zone/A", b"B", absA, absB, b"file:Zone/A", b"file:" + absA, b"", b"Zone", b"unreadable", b"trunc", b"right",
                 b":B", b"nosuch", b"UTC", b"UTC0", b"Fixed/UTC-03:00:00", b"Fixed/UTC+24:00:00", b"Fixed/UTC+24:00:01", b"file:", b"file:file:B",
                 b"America/New_York", b"B\0junk", b"Zone//A", b"./B", b"file:/nonexistent",
                 # absolute-looking names that exist only relative to TZDIR (must NOT load)
                 b"file:/Zone/A", b"file:/B", b"/B", b"/Zone/A", b"//B", b"file://B", b"FILE:B", b"file:./B",
                 # strings of the fixed-offset SHAPE that are not fixed-offset names (a NUL / non-digit in each digit
                 # position): must go to the file system, fail, and leave UTC
                 b"Fixed/UTC+1\0:11:11", b"Fixed/UTC+\x001:11:11", b"Fixed/UTC+11:1\0:11", b"Fixed/UTC+11:11:1\0",
                 b"Fixed/UTC+11:\x001:11", b"Fixed/UTC+1a:00:00", b"Fixed/UTC+01:00:00x", b"Fixed/UTC+01:00:0"]
        drv, dlog = C.build_driver()
        har, hlog = C.build_harness(variant="plain", harness_src="env_harness.cc")
        if drv is None or har is None:
            p = C.write_replay(pid, {"property": pid, "kind": "build-failure", "detail": (dlog or "")[-2000:] + (hlog or "")[-2000:]})
            print("VIOLATION property=%s replay=%s no-failing-input-found" % (pid, p))
            return 1
        hx = lambda b: "NONE" if b is None else (b.hex() if b else "-")
        all_cases, all_impl, all_drv = [], [], []
        fs_measure = {}
        configs = [(d, t, l) for d in TZDIRS for t in TZS for l in LTS]
        if tier == "quick":
            # $LOCALTIME matters only when $TZ says "localtime" - so it must be SET in some configurations where
            # $TZ says something else (a zone, ":zone", an invalid name, empty) to see that it is ignored there
            configs = [c for i, c in enumerate(configs) if c[2] is None or c[1] in (None, b"localtime", b":localtime")
                       or (c[0] in (tzroot.encode(), None) and c[1] in (b"B", b":B", b"No/Such", b"", absA))]
        for ci, (tzdir, tz, lt) in enumerate(configs):
            req = [n.hex() if n else "-" for n in NAMES] + ["LOCAL", "DEFAULT"]
            reqf = os.path.join(work, "req%d" % ci)
            open(reqf, "w").write("\n".join(req) + "\n")
            env = {k: v for k, v in os.environ.items() if k not in ("TZDIR", "TZ", "LOCALTIME")}
            if tzdir is not None:
                env["TZDIR"] = tzdir.decode()
            if tz is not None:
                env["TZ"] = tz.decode()
            if lt is not None:
                env["LOCALTIME"] = lt.decode()
            outf = os.path.join(work, "out%d" % ci)
            subprocess.run([har, reqf, outf], env=env, cwd=root, stdout=subprocess.DEVNULL, stderr=subprocess.DEVNULL, timeout=60)
            lines = open(outf).read().split("\n") if os.path.exists(outf) else []
            # which paths may be opened: every name, and the local zone's name
            local = tz if tz is not None else b":localtime"
            if local.startswith(b":"):
                local = local[1:]
            if local == b"localtime":
                local = lt if lt is not None else b"/etc/localtime"
            for n in NAMES + [local]:
                pth = py_zone_path(tzdir, n)
                if pth not in fs_measure:
                    cwd = os.getcwd()
                    os.chdir(root)
                    try:
                        fs_measure[pth] = measure(pth)
                    finally:
                        os.chdir(cwd)
            for j, n in enumerate(NAMES + [b"LOCAL"]):
                nm = "LOCAL" if n == b"LOCAL" else (n.hex() if n else "-")
                all_cases.append("nameres %s %s %s %s" % (hx(tzdir), hx(tz), hx(lt), nm))
                all_impl.append(lines[j] if j < len(lines) else "?ABORT")
            dline = lines[len(NAMES) + 1] if len(lines) > len(NAMES) + 1 else ""
            if dline != "default_eq_utc=1":
                all_cases.append("# default-constructed time_zone != utc_time_zone() under config %d: %r" % (ci, dline))
                all_impl.append("default_eq_utc!=1")
        fsf = os.path.join(work, "fs.txt")
        with open(fsf, "w") as f:
            for pth, data in fs_measure.items():
                f.write("%s %s\n" % (pth.hex() if pth else "-", "NONE" if data is None else (data.hex() if data else "-")))
        drvl, dfails = C.run_sharded(drv, all_cases, work, "drv", env={"VERIF_FS": fsf})
        bad_default = [c for c in all_cases if c.startswith("# default-constructed")]
        v = C.compare(all_cases, all_impl, drvl)
        rc, violations = 0, 0
        if v.prop_fail or bad_default:
            items = sorted(v.prop_fail, key=lambda it: (len(it[1]), it[0]))
            case = items[0][1] if items else bad_default[0]
            p = C.write_replay(pid, {"property": pid, "kind": "failing-configuration", "case": case,
                                     "implementation": items[0][2] if items else "", "specification": items[0][4] if items else "",
                                     "note": "args: TZDIR TZ LOCALTIME name (hex; NONE = unset, - = empty); the tree is rebuilt by the check", "others": [it[1] for it in items[1:15]]})
            print("failing configuration: %s\n  implementation: %s\n  specification:  %s" % (case, items[0][2] if items else "", items[0][4] if items else ""))
            print("VIOLATION property=%s replay=%s" % (pid, p))
            rc, violations = 1, len(items) + len(bad_default)
        elif v.corr_fail or not proof_ok:
            p = C.write_replay(pid, {"property": pid, "kind": "unchecked", "failed_theorems": pr["failed"], "coq_log_tail": pr["log"][-2000:],
                                     "correspondence_mismatches": [{"case": it[1], "implementation": it[2], "model": it[3], "why": it[5]} for it in v.corr_fail[:20]]})
            for it in v.corr_fail[:5]:
                print("correspondence mismatch: %s\n  impl : %s\n  model: %s (%s)" % (it[1], it[2], it[3], it[5]))
            if not proof_ok:
                print("proof obligations not discharged:", pr["failed"] or gate); print(pr["log"][-1200:])
            print("VIOLATION property=%s replay=%s no-failing-input-found" % (pid, p))
            rc, violations = 1, max(1, len(v.corr_fail))
        samples = [{"case": all_cases[k], "implementation": all_impl[k], "model": drvl[k]} for k in range(0, len(all_cases), max(1, len(all_cases) // 6))][:8]
        cov = {"obligations": max(1, len(pr["obligations"])), "discharged": len(pr["discharged"]), "theorems": pr["obligations"],
               "failed_theorems": pr["failed"], "assumptions_printed": pr["axioms"],
               "checker_cmd": "make -C /verif/coq ; coqc Properties_C19.v ; Print Assumptions",
               "trusted_base": C.TRUSTED_BASE + ["kernel file semantics enter only through the measured fs oracle (open + read of each candidate path in the same tree)"],
               "constants_tie": const_status, "evaluations": len(all_cases), "distinct_nontrivial": len(set(all_cases)),
               "rule": "matrix TZDIR x TZ x LOCALTIME x names, each configuration in a child process; non-trivial = distinct (configuration, name)",
               "samples": samples, "configurations": len(configs), "paths_measured": len(fs_measure), "in_domain": v.in_domain, "exhaustive": tier != "quick"}
        C.write_evidence(pid, tier, seed, cov, time.time() - t0, violations, ["fopen/fread behave as measured by the orchestrator in the same tree"])
        if rc == 0:
            print("OK property=%s tier=%s cases=%d configurations=%d theorems=%d/%d wall=%.1fs" % (pid, tier, len(all_cases), len(configs), len(pr["discharged"]), len(pr["obligations"]), time.time() - t0))
        return rc
    finally:
        try:
            os.chmod(os.path.join(root, "tz", "unreadable"), 0o600)
        except Exception:
            pass
        shutil.rmtree(root, ignore_errors=True)


reg("C19", custom=run_c19)
