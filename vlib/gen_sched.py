"""C13 / C20: schedules of the loader's critical sections."""
import itertools

NAMES = ["V:A", "V:B", "V:X", "Fixed/UTC+01:00:00", "UTC", "V:nosuch"]


def orders(k):
    """all interleavings of S_i before R_i for i < k"""
    ev = []
    for i in range(k):
        ev += [("S", i), ("R", i)]
    seen = set()
    for perm in itertools.permutations(ev):
        ok = True
        pos = {e: j for j, e in enumerate(perm)}
        for i in range(k):
            if pos[("S", i)] > pos[("R", i)]:
                ok = False
                break
        if ok and perm not in seen:
            seen.add(perm)
            yield perm


FIXED_NAMES = ["UTC", "UTC0", "Fixed/UTC+24:00:00", "Fixed/UTC-24:00:00", "Fixed/UTC+23:59:59", "Fixed/UTC-23:59:59",
               "Fixed/UTC+00:00:01", "Fixed/UTC-00:00:01", "Fixed/UTC+00:00:00", "Fixed/UTC-00:00:00", "Fixed/UTC+12:34:56",
               "Fixed/UTC-12:34:56", "Fixed/UTC+00:99:99", "Fixed/UTC+24:00:01", "Fixed/UTC-24:00:01", "Fixed/UTC+0a:00:00"]


def schedules(tier, rng, op):
    out = []
    # the factory must never see UTC / fixed-offset names (and must see malformed look-alikes)
    for n in FIXED_NAMES:
        out.append("%s S0:%s R0 S1:%s R1 S0:%s R0" % (op, n, n, n))
    # names that differ only behind an embedded NUL ("%00" in a token) or in a trailing NUL are different names:
    # each is loaded (factory asked) once, and repeat loads hit the cache
    for a, b in (("V:A", "V:A%00v2"), ("V:A%00v2", "V:A"), ("V:A%00", "V:A%00"), ("V:B%00x", "V:B%00y"), ("V:X%00", "V:X"), ("V:nosuch%00q", "V:nosuch%00q")):
        out.append("%s S0:%s R0 S0:%s R0 S1:%s R1 S0:%s R0 S1:%s R1" % (op, a, b, a, b, a))
        out.append("%s S0:%s S1:%s R0 R1 S0:%s R0 S1:%s R1" % (op, a, b, a, b))
    # the factory is handed exactly the name the caller passed: "file:X" and "X" are two names (two cache entries,
    # two invocations with two different arguments)
    for a, b in (("file:V:A", "V:A"), ("V:A", "file:V:A"), ("file:V:B", "file:V:B"), ("file:V:X", "V:X")):
        out.append("%s S0:%s R0 S0:%s R0 S1:%s R1 S0:%s R0" % (op, a, b, a, b))
    ks = [1, 2, 3] if tier == "quick" else [1, 2, 3, 4]
    for k in ks:
        ords = list(orders(k))
        assigns = list(itertools.product(NAMES[:5], repeat=k))
        if k == 3 and tier == "quick":
            assigns = rng.sample(assigns, 30) + [("V:A",) * 3, ("V:A", "V:A", "V:B"), ("V:X",) * 3, ("V:A", "V:X", "V:A")]
        if k == 4:
            assigns = rng.sample(assigns, 25) + [("V:A",) * 4, ("V:A", "V:A", "V:B", "V:B"), ("V:X", "V:X", "V:A", "V:A")]
        for a in assigns:
            for o in ords:
                toks = []
                for (kind, i) in o:
                    toks.append("S%d:%s" % (i, a[i]) if kind == "S" else "R%d" % i)
                # arbitrary repeat loads afterwards (single-threaded)
                rep = []
                for _ in range(rng.randint(0, 3)):
                    rep.append("S%d:%s" % (rng.randrange(k), rng.choice(list(a) + NAMES)))
                    rep.append("R%d" % int(rep[-1][1:rep[-1].index(":")]))
                out.append("%s %s" % (op, " ".join(toks + rep)))
    return out
