"""Zone tables and probe generators for C01-C03, C06, C10-C12, C14 (and the
zone half of C15).  Python here only *aims* probes (it computes where
transitions and rule instants are so that probes land next to them); the
expected answers come from the extracted Coq spec, never from this file."""
import os, struct
from . import tzif
from .common import I64_MIN, I64_MAX

P400 = 146097 * 86400
BIG_BANG = -(1 << 59)

QUICK_ZONES = [
    "America/New_York", "America/Los_Angeles", "Europe/London", "Europe/Dublin", "Europe/Lisbon",
    "Australia/Lord_Howe", "Australia/Sydney", "Pacific/Apia", "Pacific/Kwajalein", "Pacific/Chatham",
    "Africa/Monrovia", "Africa/Cairo", "Africa/Casablanca", "Asia/Kathmandu", "Asia/Tokyo", "Asia/Tehran",
    "Asia/Gaza", "Europe/Amsterdam", "America/Jamaica", "America/Phoenix", "America/Sao_Paulo",
    "America/St_Johns", "America/Nuuk", "America/Scoresbysund", "Antarctica/Troll", "Asia/Kolkata",
    "Europe/Moscow", "Pacific/Kiritimati", "Pacific/Tongatapu", "America/Caracas", "Asia/Pyongyang",
    "Atlantic/Azores", "Africa/Juba", "Asia/Jerusalem", "America/Havana", "Pacific/Norfolk",
    "UTC", "Etc/GMT+12", "Etc/GMT-14", "EST5EDT", "CET", "Pacific/Easter", "America/Asuncion",
    "Antarctica/Casey", "Asia/Dhaka",
]


def zid_of(name):
    return name.replace("/", "_").replace("+", "p").replace("-", "m")


def real_zones(tier, rng, limit=None):
    files = tzif.zone_files()
    names = [tzif.zone_name(p) for p in files]
    if tier == "quick":
        chosen = [n for n in QUICK_ZONES if n in names]
        rest = [n for n in names if n not in chosen]
        chosen += rng.sample(rest, min(len(rest), 15))
    else:
        chosen = names
    if limit:
        chosen = chosen[:limit]
    out = []
    for n in chosen:
        data = open(os.path.join(tzif.ZONEINFO, n), "rb").read()
        out.append((zid_of(n), data))
    return out


# ---------------------------------------------------------------------------
# calendar helpers for aiming probes (proleptic Gregorian on unbounded ints)

def days_from_civil(y, m, d):
    y -= m <= 2
    era = y // 400
    yoe = y - era * 400
    doy = (153 * (m + (-3 if m > 2 else 9)) + 2) // 5 + d - 1
    doe = yoe * 365 + yoe // 4 - yoe // 100 + doy
    return era * 146097 + doe - 719468


def civil_from_days(z):
    z += 719468
    era = z // 146097
    doe = z - era * 146097
    yoe = (doe - doe // 1460 + doe // 36524 - doe // 146096) // 365
    y = yoe + era * 400
    doy = doe - (365 * yoe + yoe // 4 - yoe // 100)
    mp = (5 * doy + 2) // 153
    d = doy - (153 * mp + 2) // 5 + 1
    m = mp + 3 if mp < 10 else mp - 9
    return (y + (m <= 2), m, d)


def civil_of_seconds(s):
    day, r = divmod(s, 86400)
    y, m, d = civil_from_days(day)
    return (y, m, d, r // 3600, r % 3600 // 60, r % 60)


def is_leap(y):
    return y % 4 == 0 and (y % 100 != 0 or y % 400 == 0)


def parse_rule(footer):
    """Very small POSIX-TZ reader for aiming only: returns (std_off, dst_off, (start), (end)) or None."""
    import re
    m = re.match(rb"^(<[^>]*>|[^-+,\d<]{3,})([-+]?\d+(?::\d+(?::\d+)?)?)(<[^>]*>|[^-+,\d<]{3,})([-+]?\d+(?::\d+(?::\d+)?)?)?,([^,/]+)(?:/([-+]?\d+(?::\d+(?::\d+)?)?))?,([^,/]+)(?:/([-+]?\d+(?::\d+(?::\d+)?)?))?$", footer)
    if not m:
        return None
    def hms(b, sign):
        if b is None:
            return None
        s = b.decode()
        sg = sign
        if s[0] in "+-":
            if s[0] == "-":
                sg = -sg
            s = s[1:]
        p = [int(x) for x in s.split(":")] + [0, 0]
        return sg * (p[0] * 3600 + p[1] * 60 + p[2])
    std = hms(m.group(2), -1)
    dst = hms(m.group(4), -1) if m.group(4) else std + 3600
    def date(b):
        s = b.decode()
        try:
            if s[0] == "M":
                mm, w, d = s[1:].split(".")
                return ("M", int(mm), int(w), int(d))
            if s[0] == "J":
                return ("J", int(s[1:]))
            return ("N", int(s))
        except Exception:
            return None
    ds, de = date(m.group(5)), date(m.group(7))
    if ds is None or de is None:
        return None
    ts = hms(m.group(6), 1) if m.group(6) else 7200
    te = hms(m.group(8), 1) if m.group(8) else 7200
    return (std, dst, (ds, ts), (de, te))


def rule_instant(date, time, off_before, Y):
    jan1 = days_from_civil(Y, 1, 1)
    if date[0] == "J":
        n = date[1]
        yday = n if (is_leap(Y) and n >= 60) else n - 1
    elif date[0] == "N":
        yday = date[1]
    else:
        _, m, w, wd = date
        first = days_from_civil(Y, m, 1)
        dim = [31, 29 if is_leap(Y) else 28, 31, 30, 31, 30, 31, 31, 30, 31, 30, 31][m - 1] if 1 <= m <= 12 else 30
        def pwd(z):
            return (z + 4) % 7  # 1970-01-01 Thursday = 4 with Sunday = 0
        if w == 5:
            day = dim - (pwd(first + dim - 1) - wd) % 7
        else:
            day = 1 + (wd - pwd(first)) % 7 + 7 * (w - 1)
        yday = first + day - 1 - jan1
    return 86400 * (jan1 + yday) + time - off_before


def clamp(t):
    return max(I64_MIN, min(I64_MAX, t))


EXTREME_INSTANTS = [I64_MIN, I64_MIN + 1, I64_MIN + 2, I64_MIN + 86399, I64_MIN + 86400, I64_MIN + 86401,
                    I64_MAX, I64_MAX - 1, I64_MAX - 2, I64_MAX - 86399, I64_MAX - 86400, I64_MAX - 86401,
                    BIG_BANG - 2, BIG_BANG - 1, BIG_BANG, BIG_BANG + 1, BIG_BANG + 2, -BIG_BANG - 1, -BIG_BANG, -BIG_BANG + 1,
                    -(1 << 31) - 2, -(1 << 31) - 1, -(1 << 31), -(1 << 31) + 1, (1 << 31) - 2, (1 << 31) - 1, 1 << 31, (1 << 31) + 1,
                    0, -1, 1, 1 << 62, -(1 << 62)]
DELTAS = [-3600, -59, -2, -1, 0, 1, 2, 59, 3600]


def probe_instants(data, tier, rng, max_trans=40):
    """Instants worth probing for this zone."""
    out = list(EXTREME_INSTANTS)
    try:
        tz = tzif.Tz(data)
    except Exception:
        return out + [rng.randint(-2**40, 2**40) for _ in range(10)], [0], None
    times = tz.times
    pick = times
    if tier == "quick" and len(times) > max_trans:
        pick = times[:5] + times[-8:] + rng.sample(times[5:-8], max(0, min(len(times) - 13, max_trans - 13)))
    for T in pick:
        for d in DELTAS:
            out.append(clamp(T + d))
    offs = sorted(set(t[0] for t in tz.types))
    rule = parse_rule(tz.footer) if tz.footer else None
    last = times[-1] if times else BIG_BANG
    ly = civil_of_seconds(last + (tz.types[tz.idx[-1]][0] if times and tz.idx[-1] < len(tz.types) else 0))[0]
    for k in (-1, 0, 1):
        j = 86400 * days_from_civil(ly + k, 1, 1)
        out += [clamp(j - 1), clamp(j), clamp(j + 1)]
    if rule:
        std, dst, (ds, ts), (de, te) = rule
        years = [ly + k for k in (0, 1, 2, 3, 4, 99, 100, 101, 398, 399, 400, 401, 402, 403, 799, 800, 801, 1200)]
        years += [ly + 401 + rng.randint(0, 4000) for _ in range(4)]
        if tier != "quick":
            years += list(range(ly, ly + 404))
        elif any(d[0] == "M" and d[2] == 5 for d in (ds, de)):
            # "last weekday of the month" uses the month-END offsets (for December the 13th table entry), and whether it
            # is off by a week depends on the weekday of the month's last day: one full 28-year leap/weekday cycle
            years += list(range(ly, ly + 29))
        for Y in sorted(set(years)):
            for inst in (rule_instant(ds, ts, std, Y), rule_instant(de, te, dst, Y)):
                for d in (-1, 0, 1):
                    out.append(clamp(inst + d))
                for k in (1, 2, 1000, 729000, (I64_MAX - inst) // P400):
                    out.append(clamp(inst + k * P400))
                    out.append(clamp(inst + k * P400 - 1))
        # the rule's transitions in the last (and first) representable years: saturation happens per field there
        for Y in (292277026596, 292277026595, 292277026594, -292277022657, -292277022656):
            for inst in (rule_instant(ds, ts, std, Y), rule_instant(de, te, dst, Y)):
                for d in (-3601, -3600, -2, -1, 0, 1, 2, 3599, 3600):
                    if I64_MIN <= inst + d <= I64_MAX:
                        out.append(inst + d)
    # multiples of 400 years nearest the limits
    for base in (last, 0):
        k = (I64_MAX - base) // P400
        for kk in (k, k - 1):
            for d in (-1, 0, 1):
                out.append(clamp(base + kk * P400 + d))
    for _ in range(20 if tier == "quick" else 200):
        out.append(rng.randint(-(1 << 33), 1 << 34))
    return out, offs, rule


def civil_probes(instants, offs, tier, rng):
    """Civil seconds next to the instants: read each instant in every offset of the zone."""
    seen, out = set(), []
    for t in instants:
        for o in offs:
            cs = civil_of_seconds(t + o)
            if I64_MIN <= cs[0] <= I64_MAX and cs not in seen:
                seen.add(cs)
                out.append(cs)
    ext = [(I64_MAX, 12, 31, 23, 59, 59), (I64_MAX, 12, 31, 0, 0, 0), (I64_MAX, 1, 1, 0, 0, 0), (I64_MAX - 1, 12, 31, 23, 59, 59),
           (I64_MIN, 1, 1, 0, 0, 0), (I64_MIN, 1, 1, 23, 59, 59), (I64_MIN, 12, 31, 23, 59, 59), (I64_MIN + 1, 1, 1, 0, 0, 0),
           (292277026596, 12, 4, 15, 30, 7), (292277026596, 12, 4, 15, 30, 8), (292277026596, 12, 5, 15, 30, 7),
           (292277026596, 12, 3, 15, 30, 8), (-292277022657, 1, 27, 8, 29, 52), (-292277022657, 1, 27, 8, 29, 51),
           (-292277022657, 1, 28, 8, 29, 52), (-292277022657, 1, 26, 8, 29, 52), (1970, 1, 1, 0, 0, 0)]
    if tier == "quick" and len(out) > 900:
        out = rng.sample(out, 900)
    for e in ext:
        if e not in seen:
            out.append(e)
    return out


def fmt_cs(cs):
    return "%d %d %d %d %d %d" % cs


# ---------------------------------------------------------------------------
# synthetic zones

def synthetic_zones(rng, tier):
    """Well-formed files covering the footer forms the shipped data lacks."""
    out = []
    abbr = b"LMT\0STD\0DST\0"
    base_types = [(-17762, 0, 0), (-18000, 0, 4), (-14400, 1, 8)]
    t0 = -2717650800
    def mk(name, footer, std=-18000, dst=-14400, version=b"2", times=None, idx=None, types=None, ab=None, v1=True, isstd=0, isut=0):
        ty = types or [(-17762 if std <= 0 else 17762, 0, 0), (std, 0, 4), (dst, 1, 8)]
        tm = times if times is not None else [t0, 100000000, 110000000, 131000000, 141000000]
        ix = idx if idx is not None else [1, 2, 1, 2, 1]
        out.append((name, tzif.write_tzif(version, tm, ix, ty, ab or abbr, footer, v1_block=v1, isstd=isstd, isut=isut)))
    k = 0
    for w in range(1, 6):
        for (m, d) in [(3, 0), (1, 6), (12, 3), (2, 1), (10, 5)]:
            mk("synM_%d_%d_%d" % (w, m, d), b"STD5DST,M%d.%d.%d,M11.1.0" % (m, w, d)); k += 1
    mk("synM_last_feb", b"STD5DST,M2.5.0,M11.1.0")
    mk("synM_south", b"STD5DST,M10.1.0,M3.3.0")
    for j in (1, 59, 60, 61, 365, 100):
        mk("synJ_%d" % j, b"STD5DST,J%d,J300" % j if j < 300 else b"STD5DST,J100,J%d" % j)
    for n in (0, 58, 59, 60, 364, 365):
        mk("synN_%d" % n, b"STD5DST,%d,300" % n if n < 300 else b"STD5DST,100,%d" % n)
    for tm in (b"-167", b"-24", b"-1", b"0", b"24", b"25", b"26:30", b"167", b"2:30:15", b"-0:30"):
        mk("synT_%s" % tm.decode().replace(":", "_").replace("-", "m"), b"STD5DST,M3.2.0/%s,M11.1.0/%s" % (tm, tm))
    mk("syn_allyear", b"STD5DST4,0/0,J365/25", idx=[1, 2, 1, 2, 2])
    mk("syn_nofooter", b"")
    mk("syn_stdonly", b"STD5")
    mk("syn_v1", None, version=b"\0")
    mk("syn_v3", b"STD5DST,M3.2.0/-1,M11.1.0/26", version=b"3")
    mk("syn_v4", b"STD5DST,M3.2.0,M11.1.0", version=b"4")
    mk("syn_slim", b"STD5DST,M3.2.0,M11.1.0", v1=False)
    mk("syn_submin", b"<+0530>-5:30:07<+0630>-6:30:07,M3.2.0,M11.1.0", std=19807, dst=23407,
       types=[(17762, 0, 0), (19807, 0, 4), (23407, 1, 12)], ab=b"LMT\0+0530\0\0\0+0630\0")
    mk("syn_negdst", b"IST-1GMT0,M10.5.0,M3.5.0/1", std=3600, dst=0,
       types=[(-1500, 0, 0), (3600, 0, 4), (0, 1, 8)], ab=b"LMT\0IST\0GMT\0")
    mk("syn_east", b"NZST-12NZDT,M9.5.0,M4.1.0/3", std=43200, dst=46800,
       types=[(41944, 0, 0), (43200, 0, 4), (46800, 1, 9)], ab=b"LMT\0NZST\0NZDT\0")
    # rules in the LAST week of December / of February (month-end table entries 13 and 3, leap and common years)
    mk("syn_dec_last", b"STD5DST,M6.1.0,M12.5.0")
    mk("syn_dec_last_s", b"STD5DST,M12.5.3/1,M2.5.6")
    mk("syn_notrans_rule", b"STD5DST,M3.2.0,M11.1.0", times=[], idx=[], types=[(-18000, 0, 0), (-14400, 1, 4)], ab=b"STD\0DST\0")
    mk("syn_notrans_std", b"STD5", times=[], idx=[], types=[(-18000, 0, 0)], ab=b"STD\0")
    mk("syn_bigbang", b"STD5DST,M3.2.0,M11.1.0", times=[BIG_BANG, t0, 100000000, 110000000], idx=[0, 1, 2, 1])
    mk("syn_noop", b"STD5DST,M3.2.0,M11.1.0", times=[t0, 50000000, 100000000, 110000000, 120000000], idx=[1, 1, 2, 1, 1])
    mk("syn_isdstonly", b"STD5", times=[t0, 100000000, 110000000], idx=[1, 3, 1],
       types=[(-17762, 0, 0), (-18000, 0, 4), (-14400, 1, 8), (-18000, 1, 4)])
    mk("syn_abbronly", b"STD5", times=[t0, 100000000, 110000000], idx=[1, 3, 1],
       types=[(-17762, 0, 0), (-18000, 0, 4), (-14400, 1, 8), (-18000, 0, 8)])
    mk("syn_type0used", b"STD5", times=[t0, 100000000, 110000000, 120000000], idx=[1, 2, 0, 1],
       types=[(-18000, 0, 4), (-18000, 0, 4), (-14400, 1, 8)])
    # old-style files in which type 0 is used by a transition and the candidate rules for the
    # before-first-transition type disagree (outside wf_ast: compared with the model only)
    mk("syn_type0_dstfirst", b"STD5", times=[t0, 100000000, 110000000, 120000000], idx=[2, 1, 0, 1],
       types=[(-18000, 0, 4), (-18000, 0, 4), (-14400, 1, 8)])
    mk("syn_type0_isdst", b"STD5", times=[t0, 100000000, 110000000, 120000000], idx=[2, 0, 1, 2],
       types=[(-14400, 1, 8), (-17762, 0, 0), (-18000, 0, 4)])
    # type 0 is DST and is the first transition's type: the default type is the standard type 1,
    # and the first transition is a real, reported change
    mk("syn_type0_dst_first", b"<-03>3", times=[-1000000000, -990000000, -970000000, -960000000], idx=[0, 1, 0, 1],
       types=[(-7200, 1, 4), (-10800, 0, 0)], ab=b"-03\0-02\0")
    mk("syn_late", b"STD5DST,M3.2.0,M11.1.0", times=[t0, 4102444800 * 3], idx=[1, 2])
    # standard/wall and UT/local indicator arrays: both, only the first (fat zic output for rules with "s" but no
    # "u" switch times), only the second; in v2+ and in v1 files
    mk("syn_ind_both", b"STD5DST,M3.2.0,M11.1.0", isstd=3, isut=3)
    mk("syn_ind_std", b"STD5DST,M3.2.0,M11.1.0", isstd=3, isut=0)
    mk("syn_ind_ut", b"STD5DST,M3.2.0,M11.1.0", isstd=0, isut=3)
    mk("syn_ind_std_v1", None, version=b"\0", isstd=3, isut=0)
    mk("syn_ind_ut_v1", None, version=b"\0", isstd=0, isut=3)
    # a big-bang entry whose type is NOT the before-first-transition type (type 0 = LMT is unreferenced): outside
    # wf_ast, but the two enumeration directions must still agree and the sentinel must not be reported
    mk("syn_bigbang_std", b"STD5DST,M3.2.0,M11.1.0", times=[BIG_BANG, t0 + 1000, 100000000, 110000000], idx=[1, 1, 2, 1])
    # F9-family shape that fills ExtendTransitions' reservation exactly (one transition in 1500, both rule
    # transitions of that year still to come): the 2^31-1 sentinel is appended at size() == capacity()
    mk("syn_1500_rule", b"AAA0BBB,M6.1.0,M9.1.0", std=0, dst=3600, times=[-14831769600], idx=[1],
       types=[(1234, 0, 0), (0, 0, 4), (3600, 1, 8)], ab=b"LMT\0AAA\0BBB\0")
    # last transition before 1970 but after 1570 with a DST rule (zic -b slim output for rules unchanged since the
    # 1960s): NOT the F9 family - the generated years run past 1970, every instant follows the rule
    mk("syn_pre1970", b"STD5DST,M4.5.0,M10.5.0", times=[t0, -116442000, -100116000], idx=[1, 2, 1])
    mk("syn_pre1970b", b"STD5DST,M4.5.0,M10.5.0", times=[-11644473600], idx=[1])
    # one abbreviation stored twice (finding F14, fixed): types 1 and 3 differ only in abbr_index, so the
    # transitions between them change nothing and must not be reported; also a footer matching such a type
    mk("syn_dupabbr", b"STD5", times=[t0, 100000000, 110000000, 120000000], idx=[1, 3, 1, 3],
       types=[(-17762, 0, 0), (-18000, 0, 4), (-14400, 1, 8), (-18000, 0, 12)], ab=b"LMT\0STD\0DST\0STD\0")
    mk("syn_dupabbr_empty", None, version=b"\0", times=[100000000, 110000000], idx=[1, 1],
       types=[(0, 1, 3), (0, 1, 1)], ab=b"B\0\0\0")
    # footer offsets beyond 24 h: Load() bounds the type table's offsets by +-24h but not the
    # types the footer adds (std up to 24:59:59, default dst one hour more) - found by LoadCert.v
    # a rule whose spring-forward instant of the LAST representable year lies seconds before time_point::max()
    # (292277026596-12-04T15:30:07Z): in that gap pre saturates while trans and post do not; and the mirror
    # image at the other end (first representable instant -292277022657-01-27T08:29:52Z)
    mk("syn_lastgap", b"AAA0BBB,J338/15:30,J60/3", std=0, dst=3600, types=[(-100, 0, 0), (0, 0, 4), (3600, 1, 8)], ab=b"LMT\0AAA\0BBB\0")
    mk("syn_lastgap2", b"AAA0BBB,J338/15:29:30,J60/3", std=0, dst=3600, types=[(-100, 0, 0), (0, 0, 4), (3600, 1, 8)], ab=b"LMT\0AAA\0BBB\0")
    mk("syn_firstgap", b"AAA0BBB,J27/8:30,J300/3", std=0, dst=3600, types=[(-100, 0, 0), (0, 0, 4), (3600, 1, 8)], ab=b"LMT\0AAA\0BBB\0")
    mk("syn_wide_footer", b"AAA-24:30BBB,M3.2.0,M11.1.0", times=[], idx=[], types=[(0, 0, 0)], ab=b"UTC\0")
    mk("syn_wide_footer2", b"AAA24:59:59BBB,M3.2.0,M11.1.0", std=-89999, dst=-86399,
       types=[(-17762, 0, 0), (-86399, 0, 4), (-86399, 1, 8)])
    return out


def write_table(path, zones):
    with open(path, "w") as f:
        for zid, data in zones:
            f.write("%s %s\n" % (zid, data.hex() if data else "-"))


def zones_for(tier, rng, synthetic=True):
    zs = real_zones(tier, rng)
    if synthetic:
        zs += synthetic_zones(rng, tier)
    return zs


def reject_zones():
    """Files the loader must REJECT (each is one validation away from being accepted): a change that drops or weakens
    that validation makes the library load a zone on which queries are undefined or history-dependent.  Used by the
    checks of properties that quantify over well-formed zones (C10, C14) as well as by C12."""
    ty = [(0, 0, 0), (7200, 1, 4), (3600, 0, 8)]
    abbr = b"AAA\0BBB\0CCC\0"
    T = 1000000000
    out = [
        # first transition exactly INT64_MIN (a two-sided range check rewritten with abs() lets it through)
        ("rej_min_first", tzif.write_tzif(b"2", [I64_MIN, 0], [1, 2], ty, abbr, b"", v1_block=False)),
        ("rej_min_first1", tzif.write_tzif(b"2", [I64_MIN], [1], ty, abbr, b"", v1_block=False)),
        ("rej_below_bigbang", tzif.write_tzif(b"2", [BIG_BANG - 1, 0], [1, 2], ty, abbr, b"", v1_block=False)),
        ("rej_above_2_59", tzif.write_tzif(b"2", [0, (1 << 59) + 1], [1, 2], ty, abbr, b"", v1_block=False)),
        # 'crossing' transitions: the clock is set back by more than the time elapsed since the previous change, so the
        # table is not ordered by civil time (the hint test and the bisection of MakeTime may then pick different slots)
        ("rej_cross1", tzif.write_tzif(b"2", [T, T + 1800, T + 10000000], [1, 0, 2], ty, abbr, b"", v1_block=False)),
        ("rej_cross2", tzif.write_tzif(b"2", [T, T + 600, T + 1200, T + 20000000], [1, 0, 1, 0], ty, abbr, b"", v1_block=False)),
        ("rej_cross3", tzif.write_tzif(b"2", [-T, -T + 3599, 0, T], [1, 0, 2, 0], ty, abbr, b"CCC-1", v1_block=False)),
        # equal and decreasing times
        ("rej_equal_times", tzif.write_tzif(b"2", [T, T], [1, 2], ty, abbr, b"", v1_block=False)),
        ("rej_decreasing", tzif.write_tzif(b"2", [T, T - 1], [1, 2], ty, abbr, b"", v1_block=False)),
    ]
    return out


def gen_c01(tier, rng):
    zones = zones_for(tier, rng)
    cases = []
    for zid, data in zones:
        cases.append("zload %s" % zid)
        cases.append("cert %s" % zid)
        inst, offs, rule = probe_instants(data, tier, rng)
        for t in sorted(set(inst)):
            cases.append("bt %s %d" % (zid, t))
    return cases, zones


def gen_c02(tier, rng):
    zones = zones_for(tier, rng)
    if tier == "quick":
        zones = zones[:45] + zones[60:]
    cases = []
    for zid, data in zones:
        inst, offs, rule = probe_instants(data, tier, rng, max_trans=16)
        if rule:
            offs = sorted(set(offs + [rule[0], rule[1]]))
        cases.append("cert %s" % zid)
        for cs in civil_probes(sorted(set(inst)), offs, tier, rng):
            cases.append("mt %s %s" % (zid, fmt_cs(cs)))
    return cases, zones


def gen_c03(tier, rng):
    zones = zones_for(tier, rng)
    cases = []
    for zid, data in zones:
        inst, offs, rule = probe_instants(data, tier, rng)
        for t in sorted(set(inst)):
            cases.append("rt %s %d" % (zid, t))
        # the converse half: civil seconds (in every offset of the zone, so gaps and overlaps are hit) -> the
        # instants returned must display them
        civ = civil_probes(sorted(set(inst)), sorted(set(offs + ([rule[0], rule[1]] if rule else []))), tier, rng)
        if tier == "quick" and len(civ) > 140:
            civ = civ[:40] + rng.sample(civ[40:], 100)
        for cs in civ:
            cases.append("dsp %s %s" % (zid, fmt_cs(cs)))
    return cases, zones


def gen_c06(tier, rng):
    zones = zones_for(tier, rng)
    if tier == "quick":
        zones = zones[:45] + zones[60:]
    cases = []
    for zid, data in zones:
        inst, offs, rule = probe_instants(data, tier, rng, max_trans=16)
        if rule:
            offs = sorted(set(offs + [rule[0], rule[1]]))
        for cs in sorted(civil_probes(sorted(set(inst)), offs, tier, rng)):
            cases.append("cv %s %s" % (zid, fmt_cs(cs)))
    return cases, zones


def post_c06(cases, impl):
    """order preservation on the implementation: adjacent sorted probes of one zone"""
    bad = []
    prev = None
    for i, (c, il) in enumerate(zip(cases, impl)):
        a = c.split()
        if a[0] != "cv":
            prev = None
            continue
        try:
            v = int(il.split()[0])
        except Exception:
            prev = None
            continue
        key = tuple(int(x) for x in a[2:8])
        if prev and prev[0] == a[1] and prev[1] < key and prev[2] > v:
            bad.append((i, "convert not monotone: %s -> %d but previous %s -> %d" % (key, v, prev[1], prev[2])))
        prev = (a[1], key, v)
    return bad


def gen_c11(tier, rng):
    zones = zones_for(tier, rng)
    cases = []
    for zid, data in zones:
        inst, offs, rule = probe_instants(data, tier, rng)
        for t in sorted(set(inst)):
            cases.append("nt %s %d" % (zid, t))
            cases.append("pt %s %d" % (zid, t))
        # the templates for time_points finer than seconds (milliseconds): just before / at / just after each probe,
        # both sides of the epoch ("strictly after t" floors, "strictly before t" must round UP - finding F17)
        ms_inst = sorted(set(inst))
        if tier == "quick" and len(ms_inst) > 24:
            ms_inst = ms_inst[:8] + rng.sample(ms_inst, 8) + ms_inst[-8:]
        elif tier != "quick" and len(ms_inst) > 400:
            ms_inst = ms_inst[:100] + rng.sample(ms_inst, 200) + ms_inst[-100:]
        for t in ms_inst:
            if abs(t) < (1 << 52):
                for d in (-1, 0, 1, 500, -500, 999, -999):
                    cases.append("ntm %s %d" % (zid, t * 1000 + d))
                    cases.append("ptm %s %d" % (zid, t * 1000 + d))
        cases.append("chain %s" % zid)
    return cases, zones


def post_c11(cases, impl):
    """on EVERY loadable zone, well-formed or not: the chain of next_transition from min() and the chain of
    prev_transition from max() enumerate the same set (the harness prints B=1 when they do)"""
    bad = []
    for i, (c, il) in enumerate(zip(cases, impl)):
        if c.startswith("chain ") and " B=0" in il:
            bad.append((i, "next_transition chain from min() and prev_transition chain from max() differ: " + il[:120]))
    return bad


# ---------------------------------------------------------------------------
# C10: totality and saturation at the ends of the range

def named(name_bytes):
    return "N:" + name_bytes.hex()


def fixed_name(off):
    a = abs(off)
    return ("Fixed/UTC%s%02d:%02d:%02d" % ("-" if off < 0 else "+", a // 3600, a // 60 % 60, a % 60)).encode()


def edge_instants(tier="thorough"):
    out = []
    hs = range(0, 49) if tier != "quick" else [0, 1, 2, 11, 12, 13, 23, 24, 25, 47, 48]
    ss = range(0, 121) if tier != "quick" else [0, 1, 2, 3, 58, 59, 60, 61, 119, 120]
    for base, sg in ((I64_MIN, 1), (I64_MAX, -1)):
        for h in hs:
            out.append(base + sg * h * 3600)
        for s in ss:
            out.append(base + sg * s)
    for c in (BIG_BANG, -BIG_BANG, -(1 << 31), (1 << 31) - 1, 0):
        for d in (-2, -1, 0, 1, 2):
            out.append(c + d)
    kmax = I64_MAX // P400
    for k in (kmax, kmax - 1, -kmax, -kmax + 1):
        for d in (-1, 0, 1):
            out.append(clamp(k * P400 + d))
    return sorted(set(out))


def gen_c10(tier, rng):
    zones = zones_for(tier, rng)
    ids = [z[0] for z in zones]
    for off in (86400, -86400, 86399, -86399, 3600, -3600, 1, -1, 43200, -43200, 45296):
        ids.append(named(fixed_name(off)))
    ids.append(named(b"UTC"))
    inst = edge_instants(tier)
    cases = []
    for zid in ids:
        offs = [0, 86400, -86400, 3600, -3600, 50400, -43200, 1, -1]
        for t in inst:
            cases.append("bt %s %d" % (zid, t))
            cases.append("nt %s %d" % (zid, t))
            cases.append("pt %s %d" % (zid, t))
        civ = set()
        for t in inst:
            if abs(t) > (1 << 62):
                for o in offs:
                    cs = civil_of_seconds(t + o)
                    civ.add(cs)
        civ |= {(I64_MAX, 12, 31, 23, 59, 59), (I64_MIN, 1, 1, 0, 0, 0), (I64_MAX, 1, 1, 0, 0, 0), (I64_MIN, 12, 31, 23, 59, 59)}
        for cs in sorted(civ):
            if I64_MIN <= cs[0] <= I64_MAX:
                cases.append("mt %s %s" % (zid, fmt_cs(cs)))
                cases.append("cv %s %s" % (zid, fmt_cs(cs)))
    # files the loader must reject: if a change lets one load, its queries are where the undefined behaviour shows
    rz = reject_zones() + [z for z in handcrafted_c12() if z[0].startswith(("hc_f5", "hc_f8", "hc_f3", "hc_tie"))]
    for zid, _ in rz:
        cases.append("zload %s" % zid)
        for t in (I64_MIN, -(1 << 62), -1, 0, 1, 1000000900, 1000002000, 1 << 40, 1 << 62, I64_MAX):
            cases.append("bt %s %d" % (zid, t))
            cases.append("nt %s %d" % (zid, t))
            cases.append("pt %s %d" % (zid, t))
        for cs in ((1970, 1, 1, 0, 0, 0), (2001, 9, 9, 2, 0, 0), (2001, 9, 9, 3, 50, 0), (I64_MAX, 12, 31, 23, 59, 59), (I64_MIN, 1, 1, 0, 0, 0)):
            cases.append("mt %s %s" % (zid, fmt_cs(cs)))
    return cases, zones + rz


# ---------------------------------------------------------------------------
# C12: arbitrary bytes

FOOTERS = [b"EST5EDT,M3.2.0,M11.1.0", b"STD5", b"", b"STD5DST,M3.2.0", b"STD5DST/1", b"EST5EDT,M3,M11.1.0", b":EST5",
           b"EST5EDT,M3.2,M11.1.0", b"EST5EDT,M3.2.0,M11.1", b"EST5EDT,M3.2/2,M11.1.0/2", b"EST5EDT,J60,J300/", b"EST5EDT,M3.2.0,", b"EST5EDT,M3.2.0,M11.1.0,",
           b"STD-1DST0,J365/25:30,J1/0", b"STD5DST,J1/0,J1/0", b"STD5DST4,0/0,J365/25", b"<+03>-3<+04>,J1/-167,J365/167",
           b"STD5DST,M3.2.0/167,M3.2.0/-167", b"STD24DST-24,0,365", b"AAA0BBB,0/0,0/0", b"STD5\0junk", b"\xff\xfe\xfd5",
           b"STD5DST,M12.5.6/167,M1.1.0/-167", b"X" * 300 + b"5", b"STD5DST,366,1", b"STD5DST,J0,J1"]
# digit runs at the limits of the footer parser's integer scanner (int accumulation: INT_MAX, INT_MAX+1, +2, one more
# digit after a wrapped prefix, 2^32 + small), in every numeric position of a rule
EDGE_NUMS = [b"2147483647", b"2147483648", b"2147483649", b"21474836470", b"21474836485", b"21474836492", b"4294967296",
             b"4294967301", b"42949672965", b"9999999999", b"18446744073709551621", b"0000000002147483648"]
for _n in EDGE_NUMS:
    FOOTERS += [b"XYZ" + _n, b"XYZ-" + _n, b"XYZ5:" + _n, b"XYZ5:30:" + _n, b"EST5EDT" + _n + b",M3.2.0,M11.1.0",
                b"EST5EDT,M3.2.0/" + _n + b",M11.1.0", b"EST5EDT,M3.2.0,M11.1.0/2:" + _n, b"EST5EDT,M" + _n + b".2.0,M11.1.0",
                b"EST5EDT,M3." + _n + b".0,M11.1.0", b"EST5EDT,M3.2." + _n + b",M11.1.0", b"EST5EDT,J" + _n + b",M11.1.0",
                b"EST5EDT," + _n + b",J300"]


def header_lengths(data):
    """(ok, total declared data length of the block the loader will allocate)"""
    def cnts(off):
        if len(data) < off + 44:
            return None
        return struct.unpack(">6l", data[off + 20:off + 44])
    c = cnts(0)
    if c is None:
        return 0
    def dl(c, tl):
        isut, isstd, leap, timecnt, typecnt, charcnt = c
        if min(c) < 0:
            return 0
        return (tl + 1) * timecnt + 6 * typecnt + charcnt + (tl + 4) * leap + isstd + isut
    if data[4:5] == b"\0":
        return dl(c, 4)
    skip = dl(c, 4)
    c2 = cnts(44 + skip) if skip < len(data) else None
    if c2 is None:
        return 0
    return dl(c2, 8)


def mutate(base, rng):
    """one structured edit of a TZif byte string; an edit that does not apply to this (possibly already
       mutated) input falls back to bit flips"""
    st = rng.getstate()
    try:
        return _mutate(base, rng)
    except (IndexError, ValueError, struct.error, OverflowError):
        rng.setstate(st)
        rng.random()
        b = bytearray(base) if base else bytearray(b"\0")
        for _ in range(rng.randint(1, 4)):
            i = rng.randrange(len(b))
            b[i] ^= 1 << rng.randrange(8)
        return bytes(b)


def _mutate(base, rng):
    b = bytearray(base)
    kind = rng.randrange(12)
    try:
        tz = tzif.Tz(base)
        v2 = base[4:5] != b"\0"
        # offset of the data header (second one for v2+)
        hdr2 = 0
        if v2:
            (isut, isstd, leap, timecnt, typecnt, charcnt) = struct.unpack(">6l", base[20:44])
            hdr2 = 44 + 5 * timecnt + 6 * typecnt + charcnt + 8 * leap + isstd + isut
        (isut, isstd, leap, timecnt, typecnt, charcnt) = struct.unpack(">6l", base[hdr2 + 20:hdr2 + 44])
        tl = 8 if v2 else 4
        d0 = hdr2 + 44
    except Exception:
        kind = 0
    if kind == 0:      # bit flips anywhere
        for _ in range(rng.randint(1, 4)):
            i = rng.randrange(len(b))
            b[i] ^= 1 << rng.randrange(8)
    elif kind == 1:    # truncation at a section boundary +-1
        cuts = [44, hdr2, hdr2 + 44, d0 + tl * timecnt, d0 + (tl + 1) * timecnt, d0 + (tl + 1) * timecnt + 6 * typecnt,
                d0 + (tl + 1) * timecnt + 6 * typecnt + charcnt, len(b) - 1, len(b) - 2, 4, 5, 20]
        c = max(0, min(len(b), rng.choice(cuts) + rng.choice([-1, 0, 1])))
        b = b[:c]
    elif kind == 2:    # header count edit (data header: moderate values only)
        which = rng.randrange(6)
        cur = [isut, isstd, leap, timecnt, typecnt, charcnt][which]
        val = rng.choice([0, 1, cur + 1, max(0, cur - 1), 255, 256, 257, 1000, -1, -(1 << 31)])
        b[hdr2 + 20 + 4 * which: hdr2 + 24 + 4 * which] = struct.pack(">l", val)
    elif kind == 3 and v2:  # first-header count edit: any value (only used for Skip)
        which = rng.randrange(6)
        val = rng.choice([0, 1, 255, 256, (1 << 31) - 1, -(1 << 31), -1, 12345])
        b[20 + 4 * which: 24 + 4 * which] = struct.pack(">l", val)
    elif kind == 4 and timecnt > 0 and d0 + (tl + 1) * timecnt <= len(b):   # type index at/over the bound
        i = d0 + tl * timecnt + rng.randrange(timecnt)
        b[i] = rng.choice([typecnt, typecnt - 1, 255, 0, typecnt + 1]) & 255
    elif kind == 5 and typecnt > 0 and timecnt >= 0 and d0 + (tl + 1) * timecnt + 6 * typecnt <= len(b):   # abbreviation index / isdst / utoff edits
        j = d0 + (tl + 1) * timecnt + 6 * rng.randrange(typecnt)
        w = rng.randrange(3)
        if w == 0:
            b[j + 5] = rng.choice([charcnt, charcnt - 1, 255, 0, charcnt + 1]) & 255
        elif w == 1:
            b[j + 4] = rng.choice([0, 1, 2, 255])
        else:
            b[j:j + 4] = struct.pack(">l", rng.choice([86399, 86400, -86399, -86400, 0, 1 << 30, -(1 << 31), 90000, -90000]))
    elif kind == 6 and timecnt > 0 and d0 + tl * timecnt <= len(b):   # 8-byte time edits
        k = rng.randrange(timecnt)
        val = rng.choice([I64_MIN, I64_MAX, I64_MIN + 1, I64_MAX - 100000, BIG_BANG, BIG_BANG - 1, BIG_BANG + 1, -BIG_BANG, 0, -1,
                          (1 << 62), -(1 << 62), (1 << 31) - 1])
        if tl == 8:
            b[d0 + 8 * k: d0 + 8 * k + 8] = struct.pack(">q", val)
            if rng.random() < 0.5:   # keep sorted: set the last one high / the first one low
                k2 = timecnt - 1 if val > 0 else 0
                b = bytearray(base)
                b[d0 + 8 * k2: d0 + 8 * k2 + 8] = struct.pack(">q", val)
        else:
            b[d0 + 4 * k: d0 + 4 * k + 4] = struct.pack(">l", max(-(1 << 31), min((1 << 31) - 1, val)))
    elif kind == 7 and v2:   # footer replacement
        f = rng.choice(FOOTERS)
        i = base.rfind(b"\n", 0, len(base) - 1)
        b = bytearray(base[:i + 1] + f + b"\n")
    elif kind == 8:    # splice two halves
        c = rng.randrange(len(b))
        b = b[:c] + b[rng.randrange(len(b)):]
    elif kind == 9:    # magic / version
        b[rng.randrange(0, 6)] = rng.choice([0, ord("T"), ord("2"), ord("3"), ord("9"), 255])
    elif kind == 10 and v2:  # drop the trailing newline / footer newline
        b = b[:-1] if rng.random() < 0.5 else b + b"junk"
    else:
        for _ in range(rng.randint(1, 10)):
            b[rng.randrange(len(b))] = rng.randrange(256)
    return bytes(b)


def handcrafted_c12():
    """the families found while designing: F4, F5, F8"""
    abbr = b"LMT\0STD\0DST\0"
    ty = [(-17762, 0, 0), (-18000, 0, 4), (-14400, 1, 8)]
    out = []
    out.append(("hc_f4", tzif.write_tzif(b"2", [0, I64_MAX - 100000], [1, 2], ty, abbr, b"STD5DST,M3.2.0,M11.1.0", v1_block=False)))
    out.append(("hc_f5", tzif.write_tzif(b"2", [I64_MIN, I64_MAX], [1, 2], ty, abbr, b"", v1_block=False)))
    out.append(("hc_f5b", tzif.write_tzif(b"2", [BIG_BANG + 1, I64_MAX], [1, 2], ty, abbr, b"", v1_block=False)))
    out.append(("hc_f8", tzif.write_tzif(b"3", [100000000], [1], [(0, 0, 0), (3600, 0, 4), (0, 1, 8)], abbr, b"STD-1DST0,J365/25:30,J1/0", v1_block=False)))
    for i, f in enumerate([b"STD5DST,M3.2.0", b"STD5DST/1", b"STD5DST,M3,M11.1.0", b"STD5DST,M3.2,M11.1.0", b"STD5DST,M3.2.0,M11.1", b"STD5DST,M3.2.0,M11"]):
        out.append(("hc_f3_%d" % i, tzif.write_tzif(b"2", [100000000], [1], ty, abbr, f, v1_block=False)))
    out.append(("hc_tie", tzif.write_tzif(b"2", [100000000], [1], ty, abbr, b"STD5DST4,J1/0,J1/0", v1_block=False)))
    out.append(("hc_types300dst", tzif.write_tzif(b"2", [100000000], [0], [(3600, 1, 0)] * 300, b"DST\0", b"", v1_block=False)))
    out.append(("hc_types300std", tzif.write_tzif(b"2", [100000000], [0], [(3600, 1, 0)] * 299 + [(0, 0, 0)], b"DST\0", b"", v1_block=False)))
    # consistent files with edge-case counts in the 64-bit header (the 32-bit header is a minimal valid stub)
    out.append(("hc_v2_notypes", tzif.write_tzif(b"2", [], [], [], b"", b"", v1_block=False)))
    out.append(("hc_v2_notypes_footer", tzif.write_tzif(b"2", [], [], [], b"", b"UTC0", v1_block=False)))
    out.append(("hc_v2_nochars", tzif.write_tzif(b"2", [], [], [(0, 0, 0)], b"", b"", v1_block=False)))
    out.append(("hc_v2_onetype", tzif.write_tzif(b"2", [], [], [(0, 0, 0)], b"\0", b"", v1_block=False)))
    # one small well-formed file per footer of the list (incl. digit runs at the limits of the footer parser's int scanner)
    for i, f in enumerate(FOOTERS):
        if any(n in f for n in EDGE_NUMS):
            out.append(("hc_ft_%d" % i, tzif.write_tzif(b"2", [100000000], [1], ty, abbr, f, v1_block=False)))
    out.append(("hc_empty", b""))
    out.append(("hc_hdr_only", b"TZif2" + b"\0" * 15 + struct.pack(">6l", 0, 0, 0, 0, 1, 1)))
    return out


def panel(zid, rng):
    ts = [I64_MIN, I64_MAX, 0, 1 << 62, -(1 << 62), BIG_BANG, (1 << 31) - 1, 100000000, 1700000000, 4102444800, 64060588800, -2717650800]
    cs = [(1970, 1, 1, 0, 0, 0), (2030, 3, 10, 2, 30, 0), (2030, 11, 3, 1, 30, 0), (I64_MAX, 12, 31, 23, 59, 59), (I64_MIN, 1, 1, 0, 0, 0),
          (4000, 6, 1, 12, 0, 0), (1883, 11, 18, 12, 0, 0), (292277026596, 12, 4, 15, 30, 7)]
    out = ["zload %s" % zid]
    for t in ts:
        out.append("bt %s %d" % (zid, t))
    for t in ts[:7]:
        out.append("nt %s %d" % (zid, t))
        out.append("pt %s %d" % (zid, t))
    for c in cs:
        out.append("mt %s %s" % (zid, fmt_cs(c)))
    out.append("reload %s r" % zid)
    return out


def gen_c12(tier, rng):
    bases = real_zones("quick", rng) + synthetic_zones(rng, tier)
    n = 1200 if tier == "quick" else 60000
    # the unmutated synthetic files first: unusual but well-formed shapes (reservation exactly filled, big-bang
    # entries, footers beyond 24 h, duplicate abbreviations ...) loaded and queried under the sanitizers
    zones = list(handcrafted_c12()) + [("u_" + z, d) for z, d in synthetic_zones(rng, tier)]
    k = 0
    n += len(zones)
    while len(zones) < n:
        zid, data = rng.choice(bases)
        m = mutate(data, rng)
        if rng.random() < 0.15:
            m = mutate(m, rng)
        if len(m) > 65536 or header_lengths(m) > 65536:
            continue
        k += 1
        zones.append(("m%05d" % k, m))
    # small CONSISTENT files with edge-case shapes (every section length matches its count)
    for j in range(120 if tier == "quick" else 5000):
        typecnt = rng.choice([0, 1, 1, 2, 3, 255, 256, 257])
        charcnt = rng.choice([0, 1, 4, 8])
        timecnt = rng.choice([0, 0, 1, 2, 5])
        types = [(rng.choice([0, 3600, -3600, 86399, -86399, 86400, 12345]), rng.randint(0, 1), rng.randrange(max(1, charcnt + 1))) for _ in range(typecnt)]
        ab = bytes(rng.choice([0, 65, 66, 0]) for _ in range(charcnt))
        t0 = rng.choice([0, -1000000, 100000000, BIG_BANG, -(1 << 40)])
        times = [t0 + 10000000 * k for k in range(timecnt)]
        idx = [rng.randrange(max(1, typecnt + 1)) & 255 for _ in range(timecnt)]
        ver = rng.choice([b"2", b"2", b"3", b"\0"])
        std = rng.choice([0, 0, typecnt, 1])
        ut = rng.choice([0, 0, typecnt, 1])
        try:
            zones.append(("s%05d" % j, tzif.write_tzif(ver, times, idx, types, ab, rng.choice(FOOTERS[:6]), isstd=std, isut=ut, v1_block=False)))
        except Exception:
            pass
    # purely random byte strings and tiny files
    for j in range(60 if tier == "quick" else 2000):
        L = rng.choice([0, 1, 4, 5, 43, 44, 45, 88, 100, 200])
        zones.append(("r%04d" % j, bytes([rng.randrange(256) for _ in range(L)]) if rng.random() < 0.5 else (b"TZif2" + bytes(rng.randrange(256) for _ in range(L)))))
    cases = []
    for zid, _ in zones:
        cases += panel(zid, rng)
    return cases, zones


# ---------------------------------------------------------------------------
# C14: every reachable hidden state

def gen_c14(tier, rng):
    zones = zones_for(tier, rng)
    if tier == "quick":
        zones = zones[:40] + zones[-12:]
    # files with transitions that are not ordered by civil time: the loader rejects them (then every copy answers
    # "noload"); a change that lets them load makes MakeTime's hint test and bisection disagree - history dependence
    zones = zones + [z for z in reject_zones() if "cross" in z[0]]
    cases = []
    key = 0
    for zid, data in zones:
        try:
            tz = tzif.Tz(data)
            times = tz.times
        except Exception:
            times = []
        inst, offs, rule = probe_instants(data, "quick", rng, max_trans=12)
        inst = sorted(set(inst))
        pan_t = rng.sample(inst, min(len(inst), 14))
        civ = civil_probes(pan_t, offs, tier, rng)[:14]
        prim = times if tier != "quick" else (times[:3] + times[-6:] + rng.sample(times, min(len(times), 10)))
        for T in prim:
            # one priming query per direction leaves hint = index of T (+1)
            cases.append("hbt %s %d" % (zid, T))
            cs = civil_of_seconds(T + (offs[0] if offs else 0))
            cases.append("hmt %s %s" % (zid, fmt_cs(cs)))
            for t in pan_t[:6]:
                cases.append("hbt %s %d" % (zid, t))
            for c in civ[:6]:
                cases.append("hmt %s %s" % (zid, fmt_cs(c)))
        # random walk
        for _ in range(200 if tier == "quick" else 3000):
            if rng.random() < 0.5:
                cases.append("hbt %s %d" % (zid, rng.choice(inst)))
            else:
                cases.append("hmt %s %s" % (zid, fmt_cs(rng.choice(civ) if civ else (1970, 1, 1, 0, 0, 0))))
        # pristine copy under a fresh key, same probes
        key += 1
        for t in pan_t:
            cases.append("hbt %s %d" % (zid, t))
            cases.append("fbt %s k%d %d" % (zid, key, t))
        for c in civ:
            cases.append("hmt %s %s" % (zid, fmt_cs(c)))
            cases.append("fmk %s k%d %s" % (zid, key, fmt_cs(c)))
        cases.append("reload %s q%d" % (zid, key))
    # failed names stay failed
    zones = zones + [("bad_magic", b"XZif2" + b"\0" * 200), ("bad_empty", b"")]
    for j in range(3):
        cases.append("reload bad_magic b%d" % j)
        cases.append("reload bad_empty e%d" % j)
        cases.append("reload nosuchzone n%d" % j)
    return cases, zones


def post_c14(cases, impl):
    """an answer from the zone with history must equal the answer of the
    pristine copy (fbt/fmt directly follows the hbt/hmt with the same probe)"""
    bad = []
    for i in range(1, len(cases)):
        a = cases[i].split()
        if a[0] in ("fbt", "fmk"):
            p = cases[i - 1].split()
            if p[0] in ("hbt", "hmt") and p[1] == a[1] and p[2:] == a[3:]:
                if impl[i] != impl[i - 1]:
                    bad.append((i - 1, "answer depends on call history: with history %r, pristine copy %r" % (impl[i - 1], impl[i])))
    return bad
