"""Zone tables and probe generators for C01-C03, C06, C10-C12, C14 (and the
zone half of C15).  Python here only *aims* probes (it computes where
transitions and rule instants are so that probes land next to them); the
expected answers come from the extracted Coq spec, never from this file."""
import os, struct
from . import tzif
from .common import I64_MIN, I64_MAX

P400 = 146097 * 86400
BIG_BANG = -(1 << 59)

QUICK_ZONES = [
    "America/New_York", "America/Los_Angeles", "Europe/London", "Europe/Dublin", "Europe/Lisbon",
    "Australia/Lord_Howe", "Australia/Sydney", "Pacific/Apia", "Pacific/Kwajalein", "Pacific/Chatham",
    "Africa/Monrovia", "Africa/Cairo", "Africa/Casablanca", "Asia/Kathmandu", "Asia/Tokyo", "Asia/Tehran",
    "Asia/Gaza", "Europe/Amsterdam", "America/Jamaica", "America/Phoenix", "America/Sao_Paulo",
    "America/St_Johns", "America/Nuuk", "America/Scoresbysund", "Antarctica/Troll", "Asia/Kolkata",
    "Europe/Moscow", "Pacific/Kiritimati", "Pacific/Tongatapu", "America/Caracas", "Asia/Pyongyang",
    "Atlantic/Azores", "Africa/Juba", "Asia/Jerusalem", "America/Havana", "Pacific/Norfolk",
    "UTC", "Etc/GMT+12", "Etc/GMT-14", "EST5EDT", "CET", "Pacific/Easter", "America/Asuncion",
    "Antarctica/Casey", "Asia/Dhaka",
]


def zid_of(name):
    return name.replace("/", "_").replace("+", "p").replace("-", "m")


def real_zones(tier, rng, limit=None):
    files = tzif.zone_files()
    names = [tzif.zone_name(p) for p in files]
    if tier == "quick":
        chosen = [n for n in QUICK_ZONES if n in names]
        rest = [n for n in names if n not in chosen]
        chosen += rng.sample(rest, min(len(rest), 15))
    else:
        chosen = names
    if limit:
        chosen = chosen[:limit]
    out = []
    for n in chosen:
        data = open(os.path.join(tzif.ZONEINFO, n), "rb").read()
        out.append((zid_of(n), data))
    return out


# ---------------------------------------------------------------------------
# calendar helpers for aiming probes (proleptic Gregorian on unbounded ints)

def days_from_civil(y, m, d):
    y -= m <= 2
    era = y // 400
    yoe = y - era * 400
    doy = (153 * (m + (-3 if m > 2 else 9)) + 2) // 5 + d - 1
    doe = yoe * 365 + yoe // 4 - yoe // 100 + doy
    return era * 146097 + doe - 719468


def civil_from_days(z):
    z += 719468
    era = z // 146097
    doe = z - era * 146097
    yoe = (doe - doe // 1460 + doe // 36524 - doe // 146096) // 365
    y = yoe + era * 400
    doy = doe - (365 * yoe + yoe // 4 - yoe // 100)
    mp = (5 * doy + 2) // 153
    d = doy - (153 * mp + 2) // 5 + 1
    m = mp + 3 if mp < 10 else mp - 9
    return (y + (m <= 2), m, d)


def civil_of_seconds(s):
    day, r = divmod(s, 86400)
    y, m, d = civil_from_days(day)
    return (y, m, d, r // 3600, r % 3600 // 60, r % 60)


def is_leap(y):
    return y % 4 == 0 and (y % 100 != 0 or y % 400 == 0)


def parse_rule(footer):
    """Very small POSIX-TZ reader for aiming only: returns (std_off, dst_off, (start), (end)) or None."""
    import re
    m = re.match(rb"^(<[^>]*>|[^-+,\d<]{3,})([-+]?\d+(?::\d+(?::\d+)?)?)(<[^>]*>|[^-+,\d<]{3,})([-+]?\d+(?::\d+(?::\d+)?)?)?,([^,/]+)(?:/([-+]?\d+(?::\d+(?::\d+)?)?))?,([^,/]+)(?:/([-+]?\d+(?::\d+(?::\d+)?)?))?$", footer)
    if not m:
        return None
    def hms(b, sign):
        if b is None:
            return None
        s = b.decode()
        sg = sign
        if s[0] in "+-":
            if s[0] == "-":
                sg = -sg
            s = s[1:]
        p = [int(x) for x in s.split(":")] + [0, 0]
        return sg * (p[0] * 3600 + p[1] * 60 + p[2])
    std = hms(m.group(2), -1)
    dst = hms(m.group(4), -1) if m.group(4) else std + 3600
    def date(b):
        s = b.decode()
        try:
            if s[0] == "M":
                mm, w, d = s[1:].split(".")
                return ("M", int(mm), int(w), int(d))
            if s[0] == "J":
                return ("J", int(s[1:]))
            return ("N", int(s))
        except Exception:
            return None
    ds, de = date(m.group(5)), date(m.group(7))
    if ds is None or de is None:
        return None
    ts = hms(m.group(6), 1) if m.group(6) else 7200
    te = hms(m.group(8), 1) if m.group(8) else 7200
    return (std, dst, (ds, ts), (de, te))


def rule_instant(date, time, off_before, Y):
    jan1 = days_from_civil(Y, 1, 1)
    if date[0] == "J":
        n = date[1]
        yday = n if (is_leap(Y) and n >= 60) else n - 1
    elif date[0] == "N":
        yday = date[1]
    else:
        _, m, w, wd = date
        first = days_from_civil(Y, m, 1)
        dim = [31, 29 if is_leap(Y) else 28, 31, 30, 31, 30, 31, 31, 30, 31, 30, 31][m - 1] if 1 <= m <= 12 else 30
        def pwd(z):
            return (z + 4) % 7  # 1970-01-01 Thursday = 4 with Sunday = 0
        if w == 5:
            day = dim - (pwd(first + dim - 1) - wd) % 7
        else:
            day = 1 + (wd - pwd(first)) % 7 + 7 * (w - 1)
        yday = first + day - 1 - jan1
    return 86400 * (jan1 + yday) + time - off_before


def clamp(t):
    return max(I64_MIN, min(I64_MAX, t))


EXTREME_INSTANTS = [I64_MIN, I64_MIN + 1, I64_MIN + 2, I64_MIN + 86399, I64_MIN + 86400, I64_MIN + 86401,
                    I64_MAX, I64_MAX - 1, I64_MAX - 2, I64_MAX - 86399, I64_MAX - 86400, I64_MAX - 86401,
                    BIG_BANG - 2, BIG_BANG - 1, BIG_BANG, BIG_BANG + 1, BIG_BANG + 2, -BIG_BANG - 1, -BIG_BANG, -BIG_BANG + 1,
                    -(1 << 31) - 2, -(1 << 31) - 1, -(1 << 31), -(1 << 31) + 1, (1 << 31) - 2, (1 << 31) - 1, 1 << 31, (1 << 31) + 1,
                    0, -1, 1, 1 << 62, -(1 << 62)]
DELTAS = [-3600, -59, -2, -1, 0, 1, 2, 59, 3600]


def probe_instants(data, tier, rng, max_trans=40):
    """Instants worth probing for this zone."""
    out = list(EXTREME_INSTANTS)
    try:
        tz = tzif.Tz(data)
    except Exception:
        return out + [rng.randint(-2**40, 2**40) for _ in range(10)], [0], None
    times = tz.times
    pick = times
    if tier == "quick" and len(times) > max_trans:
        pick = times[:5] + times[-8:] + rng.sample(times[5:-8], max_trans - 13)
    for T in pick:
        for d in DELTAS:
            out.append(clamp(T + d))
    offs = sorted(set(t[0] for t in tz.types))
    rule = parse_rule(tz.footer) if tz.footer else None
    last = times[-1] if times else BIG_BANG
    ly = civil_of_seconds(last + (tz.types[tz.idx[-1]][0] if times and tz.idx[-1] < len(tz.types) else 0))[0]
    for k in (-1, 0, 1):
        j = 86400 * days_from_civil(ly + k, 1, 1)
        out += [clamp(j - 1), clamp(j), clamp(j + 1)]
    if rule:
        std, dst, (ds, ts), (de, te) = rule
        years = [ly + k for k in (0, 1, 2, 3, 4, 99, 100, 101, 398, 399, 400, 401, 402, 403, 799, 800, 801, 1200)]
        years += [ly + 401 + rng.randint(0, 4000) for _ in range(4)]
        if tier != "quick":
            years += list(range(ly, ly + 404))
        for Y in sorted(set(years)):
            for inst in (rule_instant(ds, ts, std, Y), rule_instant(de, te, dst, Y)):
                for d in (-1, 0, 1):
                    out.append(clamp(inst + d))
                for k in (1, 2, 1000, 729000, (I64_MAX - inst) // P400):
                    out.append(clamp(inst + k * P400))
                    out.append(clamp(inst + k * P400 - 1))
    # multiples of 400 years nearest the limits
    for base in (last, 0):
        k = (I64_MAX - base) // P400
        for kk in (k, k - 1):
            for d in (-1, 0, 1):
                out.append(clamp(base + kk * P400 + d))
    for _ in range(20 if tier == "quick" else 200):
        out.append(rng.randint(-(1 << 33), 1 << 34))
    return out, offs, rule


def civil_probes(instants, offs, tier, rng):
    """Civil seconds next to the instants: read each instant in every offset of the zone."""
    seen, out = set(), []
    for t in instants:
        for o in offs:
            cs = civil_of_seconds(t + o)
            if I64_MIN <= cs[0] <= I64_MAX and cs not in seen:
                seen.add(cs)
                out.append(cs)
    ext = [(I64_MAX, 12, 31, 23, 59, 59), (I64_MAX, 12, 31, 0, 0, 0), (I64_MAX, 1, 1, 0, 0, 0), (I64_MAX - 1, 12, 31, 23, 59, 59),
           (I64_MIN, 1, 1, 0, 0, 0), (I64_MIN, 1, 1, 23, 59, 59), (I64_MIN, 12, 31, 23, 59, 59), (I64_MIN + 1, 1, 1, 0, 0, 0),
           (292277026596, 12, 4, 15, 30, 7), (292277026596, 12, 4, 15, 30, 8), (292277026596, 12, 5, 15, 30, 7),
           (292277026596, 12, 3, 15, 30, 8), (-292277022657, 1, 27, 8, 29, 52), (-292277022657, 1, 27, 8, 29, 51),
           (-292277022657, 1, 28, 8, 29, 52), (-292277022657, 1, 26, 8, 29, 52), (1970, 1, 1, 0, 0, 0)]
    for e in ext:
        if e not in seen:
            out.append(e)
    return out


def fmt_cs(cs):
    return "%d %d %d %d %d %d" % cs


# ---------------------------------------------------------------------------
# synthetic zones

def synthetic_zones(rng, tier):
    """Well-formed files covering the footer forms the shipped data lacks."""
    out = []
    abbr = b"LMT\0STD\0DST\0"
    base_types = [(-17762, 0, 0), (-18000, 0, 4), (-14400, 1, 8)]
    t0 = -2717650800
    def mk(name, footer, std=-18000, dst=-14400, version=b"2", times=None, idx=None, types=None, ab=None, v1=True):
        ty = types or [(-17762 if std <= 0 else 17762, 0, 0), (std, 0, 4), (dst, 1, 8)]
        tm = times if times is not None else [t0, 100000000, 110000000, 131000000, 141000000]
        ix = idx if idx is not None else [1, 2, 1, 2, 1]
        out.append((name, tzif.write_tzif(version, tm, ix, ty, ab or abbr, footer, v1_block=v1)))
    k = 0
    for w in range(1, 6):
        for (m, d) in [(3, 0), (1, 6), (12, 3), (2, 1), (10, 5)]:
            mk("synM_%d_%d_%d" % (w, m, d), b"STD5DST,M%d.%d.%d,M11.1.0" % (m, w, d)); k += 1
    mk("synM_last_feb", b"STD5DST,M2.5.0,M11.1.0")
    mk("synM_south", b"STD5DST,M10.1.0,M3.3.0")
    for j in (1, 59, 60, 61, 365, 100):
        mk("synJ_%d" % j, b"STD5DST,J%d,J300" % j if j < 300 else b"STD5DST,J100,J%d" % j)
    for n in (0, 58, 59, 60, 364, 365):
        mk("synN_%d" % n, b"STD5DST,%d,300" % n if n < 300 else b"STD5DST,100,%d" % n)
    for tm in (b"-167", b"-24", b"-1", b"0", b"24", b"25", b"26:30", b"167", b"2:30:15", b"-0:30"):
        mk("synT_%s" % tm.decode().replace(":", "_").replace("-", "m"), b"STD5DST,M3.2.0/%s,M11.1.0/%s" % (tm, tm))
    mk("syn_allyear", b"STD5DST4,0/0,J365/25", idx=[1, 2, 1, 2, 2])
    mk("syn_nofooter", b"")
    mk("syn_stdonly", b"STD5")
    mk("syn_v1", None, version=b"\0")
    mk("syn_v3", b"STD5DST,M3.2.0/-1,M11.1.0/26", version=b"3")
    mk("syn_v4", b"STD5DST,M3.2.0,M11.1.0", version=b"4")
    mk("syn_slim", b"STD5DST,M3.2.0,M11.1.0", v1=False)
    mk("syn_submin", b"<+0530>-5:30:07<+0630>-6:30:07,M3.2.0,M11.1.0", std=19807, dst=23407,
       types=[(17762, 0, 0), (19807, 0, 4), (23407, 1, 12)], ab=b"LMT\0+0530\0\0\0+0630\0")
    mk("syn_negdst", b"IST-1GMT0,M10.5.0,M3.5.0/1", std=3600, dst=0,
       types=[(-1500, 0, 0), (3600, 0, 4), (0, 1, 8)], ab=b"LMT\0IST\0GMT\0")
    mk("syn_east", b"NZST-12NZDT,M9.5.0,M4.1.0/3", std=43200, dst=46800,
       types=[(41944, 0, 0), (43200, 0, 4), (46800, 1, 9)], ab=b"LMT\0NZST\0NZDT\0")
    mk("syn_notrans_rule", b"STD5DST,M3.2.0,M11.1.0", times=[], idx=[], types=[(-18000, 0, 0), (-14400, 1, 4)], ab=b"STD\0DST\0")
    mk("syn_notrans_std", b"STD5", times=[], idx=[], types=[(-18000, 0, 0)], ab=b"STD\0")
    mk("syn_bigbang", b"STD5DST,M3.2.0,M11.1.0", times=[BIG_BANG, t0, 100000000, 110000000], idx=[0, 1, 2, 1])
    mk("syn_noop", b"STD5DST,M3.2.0,M11.1.0", times=[t0, 50000000, 100000000, 110000000, 120000000], idx=[1, 1, 2, 1, 1])
    mk("syn_isdstonly", b"STD5", times=[t0, 100000000, 110000000], idx=[1, 3, 1],
       types=[(-17762, 0, 0), (-18000, 0, 4), (-14400, 1, 8), (-18000, 1, 4)])
    mk("syn_abbronly", b"STD5", times=[t0, 100000000, 110000000], idx=[1, 3, 1],
       types=[(-17762, 0, 0), (-18000, 0, 4), (-14400, 1, 8), (-18000, 0, 8)])
    mk("syn_type0used", b"STD5", times=[t0, 100000000, 110000000, 120000000], idx=[1, 2, 0, 1],
       types=[(-18000, 0, 4), (-18000, 0, 4), (-14400, 1, 8)])
    mk("syn_late", b"STD5DST,M3.2.0,M11.1.0", times=[t0, 4102444800 * 3], idx=[1, 2])
    return out


def write_table(path, zones):
    with open(path, "w") as f:
        for zid, data in zones:
            f.write("%s %s\n" % (zid, data.hex() if data else "-"))


def zones_for(tier, rng, synthetic=True):
    zs = real_zones(tier, rng)
    if synthetic:
        zs += synthetic_zones(rng, tier)
    return zs


def gen_c01(tier, rng):
    zones = zones_for(tier, rng)
    cases = []
    for zid, data in zones:
        cases.append("zload %s" % zid)
        inst, offs, rule = probe_instants(data, tier, rng)
        for t in sorted(set(inst)):
            cases.append("bt %s %d" % (zid, t))
    return cases, zones


def gen_c02(tier, rng):
    zones = zones_for(tier, rng)
    cases = []
    for zid, data in zones:
        inst, offs, rule = probe_instants(data, tier, rng, max_trans=30)
        if rule:
            offs = sorted(set(offs + [rule[0], rule[1]]))
        for cs in civil_probes(sorted(set(inst)), offs, tier, rng):
            cases.append("mt %s %s" % (zid, fmt_cs(cs)))
    return cases, zones


def gen_c03(tier, rng):
    zones = zones_for(tier, rng)
    cases = []
    for zid, data in zones:
        inst, offs, rule = probe_instants(data, tier, rng)
        for t in sorted(set(inst)):
            cases.append("rt %s %d" % (zid, t))
    return cases, zones


def gen_c06(tier, rng):
    zones = zones_for(tier, rng)
    cases = []
    for zid, data in zones:
        inst, offs, rule = probe_instants(data, tier, rng, max_trans=30)
        if rule:
            offs = sorted(set(offs + [rule[0], rule[1]]))
        for cs in sorted(civil_probes(sorted(set(inst)), offs, tier, rng)):
            cases.append("cv %s %s" % (zid, fmt_cs(cs)))
    return cases, zones


def post_c06(cases, impl):
    """order preservation on the implementation: adjacent sorted probes of one zone"""
    bad = []
    prev = None
    for i, (c, il) in enumerate(zip(cases, impl)):
        a = c.split()
        if a[0] != "cv":
            prev = None
            continue
        try:
            v = int(il.split()[0])
        except Exception:
            prev = None
            continue
        key = tuple(int(x) for x in a[2:8])
        if prev and prev[0] == a[1] and prev[1] < key and prev[2] > v:
            bad.append((i, "convert not monotone: %s -> %d but previous %s -> %d" % (key, v, prev[1], prev[2])))
        prev = (a[1], key, v)
    return bad


def gen_c11(tier, rng):
    zones = zones_for(tier, rng)
    cases = []
    for zid, data in zones:
        inst, offs, rule = probe_instants(data, tier, rng)
        for t in sorted(set(inst)):
            cases.append("nt %s %d" % (zid, t))
            cases.append("pt %s %d" % (zid, t))
        cases.append("chain %s" % zid)
    return cases, zones
