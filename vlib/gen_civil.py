"""Case generators for the civil-time properties C04, C05, C17 and the
fixed-offset helpers of C15.  Every random choice comes from the one Rng."""
import datetime
from .common import I64_MIN, I64_MAX

SMALL = [0, 1, -1, 2, -2, 11, 12, 13, 23, 24, 25, -23, -24, -25, 28, 29, 30, 31, 32, -28, -29, -30, -31,
         59, 60, 61, -59, -60, -61, 99, 100, 101, 365, 366, 367, -364, -365, -366, 399, 400, 401, -399, -400, -401,
         1439, 1440, 1441, 3599, 3600, 3601, 86399, 86400, 86401, -86399, -86400, -86401,
         146096, 146097, 146098, -146096, -146097, -146098, 292194, -292194, 36524, 36525, 1460, 1461,
         -36524, -36525, -1460, -1461]
BIG = [(1 << 31) - 1, 1 << 31, -(1 << 31), -(1 << 31) - 1, 1 << 32, 1 << 59, -(1 << 59), 1 << 62, -(1 << 62),
       I64_MAX, I64_MAX - 1, I64_MAX - 59, I64_MAX - 60, I64_MIN, I64_MIN + 1, I64_MIN + 59, I64_MIN + 60,
       146097 * 86400, -146097 * 86400, 12622780800, 9223372036854775807 // 60, -(9223372036854775807 // 60)]
YEARS = [1970, 2000, 1900, 2100, 2400, 1, 0, -1, -400, -399, -401, 399, 400, 401, 9999, 10000, -9999,
         (1 << 31) - 1, -(1 << 31), 1 << 40, -(1 << 40), 292277026596, -292277022657, 292277026595, -292277022656,
         1 << 62, -(1 << 62), I64_MAX, I64_MAX - 1, I64_MAX - 399, I64_MAX - 400, I64_MAX - 401, I64_MAX - 807,
         I64_MIN, I64_MIN + 1, I64_MIN + 399, I64_MIN + 400, I64_MIN + 401, I64_MIN + 808]


def cycle_days(step=1, start=0):
    """(y, m, d) for days of the 400-year cycle 2000-01-01 .. 2399-12-31."""
    base = datetime.date(2000, 1, 1).toordinal()
    for k in range(start, 146097, step):
        dt = datetime.date.fromordinal(base + k)
        yield (dt.year, dt.month, dt.day)


def pick_year(rng):
    r = rng.random()
    if r < 0.35:
        return rng.choice(YEARS)
    if r < 0.6:
        return rng.randint(-3000, 3000)
    if r < 0.8:
        return rng.choice([I64_MAX, I64_MIN, 0, 1 << 62, -(1 << 62)]) + rng.randint(-900, 900) if True else 0
    return rng.randint(I64_MIN, I64_MAX)


def clamp64(v):
    return max(I64_MIN, min(I64_MAX, v))


def pick_field(rng, lo_norm, hi_norm, wild=False):
    r = rng.random()
    if r < 0.3:
        return rng.randint(lo_norm, hi_norm)
    if r < 0.6:
        return rng.choice(SMALL)
    if not wild:
        # large but such that the normalised year still fits for moderate base years
        if r < 0.85:
            return rng.randint(-(1 << 40), 1 << 40)
        return rng.choice([1 << 31, -(1 << 31), (1 << 31) - 1, 146097 * 86400, -146097 * 86400, 12622780800, 1 << 45, -(1 << 45)]) + rng.randint(-70, 70)
    if r < 0.8:
        return clamp64(rng.choice(BIG) + rng.randint(-70, 70))
    if r < 0.9:
        return rng.randint(-(1 << 40), 1 << 40)
    return rng.randint(I64_MIN, I64_MAX)


def gen_c04(tier, rng):
    cases = []
    n_rand = 40000 if tier == "quick" else 1500000
    # (i) boundary stream: each argument at a boundary, others normal or boundary
    for _ in range(n_rand):
        tag = rng.randint(0, 5)
        wild = rng.random() < (0.12 if tier == "quick" else 0.02)   # a minority of cases may leave the property's domain (overflow expected)
        y = clamp64(pick_year(rng)) if wild or rng.random() < 0.3 else rng.choice([rng.randint(-3000, 3000), rng.randint(-(1 << 50), 1 << 50), 1970, 2000])
        f = [pick_field(rng, 1, 12, wild), pick_field(rng, 1, 31, wild), pick_field(rng, 0, 23, wild),
             pick_field(rng, 0, 59, wild), pick_field(rng, 0, 59, wild)]
        cases.append("ctor %d %d %s" % (tag, y, " ".join(map(str, f))))
    # (ii) the F1 family: month multiples of 12 near the top year
    for k in range(2, 40):
        for dy in range(0, 4):
            cases.append("ctor 4 %d %d 1 0 0 0" % (I64_MAX - k + 1 - dy, 12 * k))
            cases.append("ctor 0 %d %d 31 23 59 59" % (I64_MAX - k + 1 - dy, 12 * k + rng.randint(-1, 1)))
            cases.append("ctor 4 %d %d 1 0 0 0" % (I64_MIN + k + dy, -12 * k + rng.randint(0, 12)))
    # (iii) exhaustive base sweep over the day cycle with day deltas, several eras
    step = 97 if tier == "quick" else 1
    deltas = [0, 1, -1, 28, 29, 30, 31, -28, -31, 365, 366, -365, -366, 146097, -146097, 146098, -146096]
    eras = [0, -2000, -2400, 400 * ((1 << 31) // 400), -400 * ((1 << 31) // 400),
            400 * ((1 << 62) // 400), -400 * ((1 << 62) // 400),
            400 * ((I64_MAX - 2400) // 400), -400 * ((-(I64_MIN + 2400)) // 400) ]
    start = rng.randint(0, step - 1)
    for (y, m, d) in cycle_days(step, start):
        for era in (eras if tier != "quick" else [rng.choice(eras), 0]):
            dl = deltas if tier != "quick" else [rng.choice(deltas), 0]
            for dd in dl:
                cases.append("ctor 3 %d %d %d 0 0 0" % (y + era, m, d + dd))
        cases.append("ctor 0 %d %d %d %d %d %d" % (y + rng.choice(eras), m, d, rng.choice(SMALL), rng.choice(SMALL), rng.choice(SMALL + BIG[:8])))
    # (iv) alignment conversion and streaming
    for _ in range(3000 if tier == "quick" else 60000):
        y = clamp64(pick_year(rng))
        m, d = rng.randint(1, 12), rng.randint(1, 31)
        hh, mm, ss = rng.randint(0, 23), rng.randint(0, 59), rng.randint(0, 59)
        cases.append("conv %d %d %d %d %d %d %d %d" % (rng.randint(0, 5), rng.randint(0, 5), y, m, d, hh, mm, ss))
        cases.append("stream %d %d %d %d %d %d %d" % (rng.randint(0, 5), y, m, d, hh, mm, ss))
    return cases


def norm_ct(rng):
    y = clamp64(pick_year(rng))
    return [y, rng.randint(1, 12), rng.randint(1, 31), rng.randint(0, 23), rng.randint(0, 59), rng.randint(0, 59)]


UNIT = [1, 60, 3600, 86400, 86400 * 30, 86400 * 365]


def pick_n(rng, tag, wildp=0.05):
    r = rng.random()
    if r < 0.45:
        return rng.choice(SMALL)
    if r < 0.55:
        return clamp64(rng.choice(BIG) + rng.randint(-70, 70))
    if r < 0.6:
        return rng.choice([I64_MIN, I64_MIN + 1, I64_MAX, I64_MAX - 1])
    if r < 1.0 - wildp:
        return rng.randint(-(1 << 36), 1 << 36)
    return rng.randint(I64_MIN, I64_MAX)


def gen_c05(tier, rng):
    cases = []
    n = 30000 if tier == "quick" else 1200000
    for _ in range(n):
        tag = rng.randint(0, 5)
        a = norm_ct(rng)
        k = pick_n(rng, tag, 0.05 if tier == "quick" else 0.01)
        cases.append("%s %d %s %d" % (rng.choice(["add", "sub", "add", "sub", "addeq", "subeq", "addl"]), tag, " ".join(map(str, a)), k))
    # differences: b = a shifted by a chosen amount (in years/days) or independent
    for _ in range(n):
        tag = rng.randint(0, 5)
        a = norm_ct(rng)
        r = rng.random()
        if r < 0.5:
            b = list(a)
            b[0] = clamp64(a[0] + rng.choice([0, 1, -1, 399, 400, 401, -399, -400, -401, 800, -800, rng.randint(-3000, 3000)]))
            b[1:] = [rng.randint(1, 12), rng.randint(1, 31), rng.randint(0, 23), rng.randint(0, 59), rng.randint(0, 59)]
        elif r < 0.75:
            # differences near the int64 limits in this unit
            span_years = {0: 292277026596 - 1970, 1: (I64_MAX // (366 * 1440)), 2: I64_MAX // (366 * 24),
                          3: I64_MAX // 366, 4: I64_MAX // 12, 5: I64_MAX}[tag]
            b = norm_ct(rng)
            b[0] = clamp64(a[0] - rng.choice([1, -1]) * (span_years + rng.randint(-3, 3)))
        else:
            b = norm_ct(rng)
        cases.append("diff %d %s %s" % (tag, " ".join(map(str, a)), " ".join(map(str, b))))
    for _ in range(n // 6):
        a = norm_ct(rng)
        cases.append("inc %d %s" % (rng.randint(0, 5), " ".join(map(str, a))))
        b = list(a)
        i = rng.randint(0, 5)
        b[i] = clamp64(b[i] + rng.choice([0, 0, 1, -1]))
        if rng.random() < 0.3:
            b = norm_ct(rng)
        cases.append("cmp %d %d %s %s" % (rng.randint(0, 5), rng.randint(0, 5), " ".join(map(str, a)), " ".join(map(str, b))))
    # aimed at n_day's case splits as step() reaches them: the hour step passes the RAW day f.d + n/24
    # (possibly <= 0: previous-year shortcut at -365, 400-year borrow below), the other steps carry
    # through cd; targets are day arguments at the boundaries of every branch of n_day
    DAYB = [-146098, -146097, -146096, -731, -730, -367, -366, -365, -364, -363, -31, -1, 0, 1, 27, 28, 29, 30, 31, 32,
            59, 60, 364, 365, 366, 367, 730, 731, 1460, 1461, 1462, 36523, 36524, 36525, 36526, 146096, 146097, 146098,
            146099, 292194, 292195]
    per = {0: 86400, 1: 1440, 2: 24, 3: 1}
    for _ in range(n // 5):
        tag = rng.choice([2, 2, 2, 0, 1, 3])
        a = norm_ct(rng)
        if rng.random() < 0.7:
            a[0] = rng.choice([1970, 2000, 2001, 2013, 2014, 2015, 2016, 2017, 1900, 1901, 2100, 2101, 2400, 2401, -1, 0, 1, 399, 400, 401])
        if rng.random() < 0.5:
            a[1], a[2] = rng.choice([(1, 1), (1, 31), (2, 28), (3, 1), (12, 31), (2, 1), (12, 1)])
        target = rng.choice(DAYB) + rng.choice([0, 0, 146097, -146097, 146097 * rng.randint(-5, 5)])
        k = (target - a[2]) * per[tag] + rng.randint(-per[tag], per[tag])
        cases.append("%s %d %s %d" % ("add", tag, " ".join(map(str, a)), k))
        cases.append("%s %d %s %d" % ("sub", tag, " ".join(map(str, a)), -k))
    # extremes
    for tag in range(6):
        for a in ([I64_MAX, 12, 31, 23, 59, 59], [I64_MIN, 1, 1, 0, 0, 0], [1970, 1, 1, 0, 0, 0]):
            for k in [0, 1, -1, I64_MIN, I64_MAX, I64_MIN + 1]:
                cases.append("add %d %s %d" % (tag, " ".join(map(str, a)), k))
                cases.append("sub %d %s %d" % (tag, " ".join(map(str, a)), k))
                cases.append("addeq %d %s %d" % (tag, " ".join(map(str, a)), k))
                cases.append("subeq %d %s %d" % (tag, " ".join(map(str, a)), k))
                cases.append("addl %d %s %d" % (tag, " ".join(map(str, a)), k))
    return cases


def gen_c17(tier, rng):
    cases = []
    step = 29 if tier == "quick" else 1
    eras = [0, -2000, -2400, -4000, 400 * ((1 << 31) // 400), -400 * ((1 << 31) // 400),
            400 * ((1 << 62) // 400), -400 * ((1 << 62) // 400),
            400 * ((I64_MAX - 2400) // 400), -400 * ((-(I64_MIN + 2400)) // 400)]
    start = rng.randint(0, step - 1)
    for (y, m, d) in cycle_days(step, start):
        es = eras if tier != "quick" else [0, rng.choice(eras)]
        for era in es:
            cases.append("wd %d %d %d %d %d %d" % (y + era, m, d, rng.randint(0, 23), rng.randint(0, 59), rng.randint(0, 59)))
            cases.append("yd %d %d %d 0 0 0" % (y + era, m, d))
            ws = range(7) if tier != "quick" else [rng.randint(0, 6)]
            for w in ws:
                cases.append("nwd %d %d %d %d" % (y + era, m, d, w))
                cases.append("pwd %d %d %d %d" % (y + era, m, d, w))
    # extremes of the year range
    for y in [I64_MAX, I64_MAX - 1, I64_MIN, I64_MIN + 1]:
        for (m, d) in [(1, 1), (1, 2), (2, 28), (2, 29), (3, 1), (12, 24), (12, 25), (12, 31), (1, 7), (1, 8)]:
            cases.append("wd %d %d %d 0 0 0" % (y, m, d))
            cases.append("yd %d %d %d 0 0 0" % (y, m, d))
            for w in range(7):
                cases.append("nwd %d %d %d %d" % (y, m, d, w))
                cases.append("pwd %d %d %d %d" % (y, m, d, w))
    return cases


def hexs(b):
    return b.hex() if b else "-"


def gen_c15_helpers(tier, rng):
    cases = []
    for off in range(-90000, 90001):
        cases.append("fx_name %d" % off)
        cases.append("fx_abbr %d" % off)
    for off in [I64_MIN, I64_MAX, 1 << 31, -(1 << 31), (1 << 31) - 1, 1 << 32, (1 << 32) + 3600, -(1 << 32) - 3600,
                90001, -90001, 100000, -100000]:
        cases.append("fx_name %d" % off)
        cases.append("fx_abbr %d" % off)
    # canonical names (all) and mutants
    def name(off):
        a = abs(off)
        return ("Fixed/UTC%s%02d:%02d:%02d" % ("-" if off < 0 else "+", a // 3600, a // 60 % 60, a % 60)).encode()
    offs = range(-86400, 86401) if tier != "quick" else list(range(-86400, 86401, 7)) + [86400, -86400, 1, -1, 59, -59, 60, -60, 3599, -3599]
    for off in offs:
        cases.append("fx_from %s" % hexs(name(off)))
    repl = [0, ord('/'), ord('0'), ord('9'), ord(':'), ord(';'), ord('+'), ord('-'), ord(' '), 0x80, ord('a'), 0xff, ord('5'), ord('6')]
    seeds = [name(o) for o in [0, 1, -1, 3600, -3600, 86400, -86400, 86399, -86399, 45296, -45296, 36000]]
    for s in seeds:
        for pos in range(len(s)):
            for r in repl:
                m = bytearray(s)
                m[pos] = r
                cases.append("fx_from %s" % hexs(bytes(m)))
        cases.append("fx_from %s" % hexs(s[:-1]))
        cases.append("fx_from %s" % hexs(s + b"0"))
        cases.append("fx_from %s" % hexs(s + b"\0"))
        cases.append("fx_from %s" % hexs(b" " + s))
    for lit in [b"UTC", b"UTC0", b"UTC00", b"utc", b"UTC\0", b"", b"U", b"Fixed/UTC", b"Fixed/UTC+24:00:01", b"Fixed/UTC+23:60:00",
                b"Fixed/UTC+00:99:99", b"Fixed/UTC+23:59:60", b"Fixed/UTC+24:00:00", b"Fixed/UTC-24:00:00", b"Fixed/UTC+99:99:99",
                b"Fixed/UTC+0\0:00:00", b"Fixed/UTC+00:0\0:00", b"Fixed/UTC+00:00:0\0", b"Fixed/UTC+\0\0:\0\0:\0\0",
                b"Fixed/UTC 01:00:00", b"Fixed/UTC+01-00-00", b"fixed/UTC+01:00:00", b"Fixed/UTC+1:00:000", b"Fixed/UTC+001:00:0"]:
        cases.append("fx_from %s" % hexs(lit))
    # the zone part: fixed_time_zone(off) at instants spread over the int64 range
    inst = [I64_MIN, I64_MAX, 0, -1, 1, 1700000000, -(1 << 59), 1 << 59, (1 << 31) - 1, -(1 << 62)]
    step = 37 if tier == "quick" else 1
    for off in list(range(-90000, 90001, step)) + [86400, -86400, 86399, -86399, 86401, -86401, 1, -1, 59, -59, 60, -60, 3599, -3600]:
        ts = inst if tier != "quick" else [rng.choice(inst)]
        for t in ts:
            cases.append("fz %d %d" % (off, t))
    for off in (I64_MAX, I64_MIN, 1 << 40, -(1 << 40)):
        cases.append("fz %d 0" % off)
    for _ in range(2000 if tier == "quick" else 100000):
        m = bytearray(rng.choice(seeds))
        for _k in range(rng.randint(1, 3)):
            m[rng.randrange(len(m))] = rng.choice(repl + [rng.randrange(256)])
        cases.append("fx_from %s" % hexs(bytes(m)))
    return cases
