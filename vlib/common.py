"""Shared machinery for /verif/check: building the Coq development, the
extracted driver and the C++ harness (from /repo's *current* working tree),
running both on a case file, deciding, and writing evidence."""
import hashlib, json, os, re, subprocess, sys, time, random, shutil, tempfile
from concurrent.futures import ThreadPoolExecutor

VERIF = os.path.dirname(os.path.dirname(os.path.abspath(__file__)))
REPO = os.environ.get("VERIF_REPO", "/repo")
CACHE = os.path.join(VERIF, ".cache")
COQ = os.path.join(VERIF, "coq")
GUARD = "GOOGLE_CCTZ_VERIF"
LIB_SRCS = ["civil_time_detail.cc", "time_zone_fixed.cc", "time_zone_format.cc",
            "time_zone_if.cc", "time_zone_impl.cc", "time_zone_info.cc",
            "time_zone_libc.cc", "time_zone_lookup.cc", "time_zone_posix.cc",
            "zone_info_source.cc"]
SAN_FLAGS = ["-fsanitize=address,undefined", "-fno-omit-frame-pointer"]
CXX = os.environ.get("VERIF_CXX", "g++")

TRUSTED_BASE = [
    "coqc 8.16.1 kernel (full .vo build via coq_makefile; vm_compute used for finite sweeps; no native_compute)",
    "axioms: none declared; Print Assumptions output per theorem recorded in this file",
    "hand-written Gallina model (coq/*Impl.v) tied to /repo by this run's differential correspondence on the listed cases",
    "gen/src_constants.py copies literal tables/constants from /repo into coq/SrcConstants.v on every run",
    "gen/ast_translate.py, ast_translate64.py, ast_translate_ptr.py, ast_translate_out.py, ast_translate_zone.py, ast_translate_load.py, ast_translate_chrono.py (clang 14 JSON AST -> Gallina, re-run on every check, memoised on the SHA-256 of the sources: Translated.v unbounded; Source64.v checked 64/32-bit reading of ALL of civil_time_detail.h except operator<< and of the time_zone_info.cc kernels; SourcePosix.v / SourceFmtParse.v / SourceDecode.v pointer-level readers; SourceFixed.v time_zone_fixed.cc; SourceFmtOut.v / SourceFmtLoop.v / SourceFmtTM.v / SourceFmtWeek.v format()'s helpers, main loop, ToTM, ToWeek/FromWeek; SourceZone.v the zone queries; SourceLoad.v the loader incl. Load(); SourceSplit.v the time_zone.h templates through their instantiations); a function they cannot translate is reported as an undischarged obligation",
    "extraction: ExtrOcamlBasic only (bool, option, unit, list, prod, sumbool, sumor; andb/orb inlined); Z/positive/nat stay inductive",
    "ocaml/driver.ml (case parsing, printing), harness/*.cc, g++ 12.2 with ASan+UBSan, OCaml 4.13.1",
]


def sh(cmd, **kw):
    return subprocess.run(cmd, stdout=subprocess.PIPE, stderr=subprocess.STDOUT, text=True, **kw)


def sha_files(paths, extra=""):
    h = hashlib.sha256()
    h.update(extra.encode())
    for p in sorted(paths):
        h.update(p.encode())
        with open(p, "rb") as f:
            h.update(f.read())
    return h.hexdigest()[:24]


# ----------------------------------------------------------------------------
# Coq

GENERATORS = [("constants", "src_constants.py"), ("ast_translation", "ast_translate.py"),
              ("ast_translation_checked64", "ast_translate64.py"), ("ast_translation_posix_parser", "ast_translate_ptr.py"),
              ("ast_translation_fixed_and_format_output", "ast_translate_out.py"),
              ("ast_translation_zone_queries", "ast_translate_zone.py"),
              ("ast_translation_zone_loader", "ast_translate_load.py"),
              ("ast_translation_chrono_templates", "ast_translate_chrono.py")]
GENERATED = ["SrcConstants.v", "Translated.v", "Source64.v", "SourcePosix.v", "SourceFmtParse.v", "SourceDecode.v",
             "SourceFixed.v", "SourceFmtOut.v", "SourceZone.v", "SourceFmtLoop.v", "SourceFmtTM.v", "SourceLoad.v", "SourceFmtWeek.v", "SourceSplit.v", "SourceNames.v", "SourceParseLoop.v"]


def regen_constants():
    """Re-derive every source-derived Coq file from /repo's CURRENT working tree (six generators, ~45 s of clang AST
    dumps).  The result is a pure function of the sources, the generators and the generated files themselves, so it is
    memoised on the SHA-256 of all of those: an edited tree (or a tampered generated file) always regenerates."""
    import glob
    srcs = sorted(glob.glob(os.path.join(REPO, "src", "*")) + glob.glob(os.path.join(REPO, "include", "cctz", "*")) +
                  glob.glob(os.path.join(VERIF, "gen", "*.py")))
    srcs = [p for p in srcs if os.path.isfile(p)]
    outs = [os.path.join(COQ, g) for g in GENERATED]
    stamp_path = os.path.join(COQ, ".gen_stamp.json")
    with CoqLock():
        if all(os.path.exists(o) for o in outs):
            key = sha_files(srcs + outs)
            try:
                st = json.load(open(stamp_path))
                if st.get("key") == key:
                    r = dict(st["status"])
                    r["memoised"] = "sources, generators and generated files unchanged since the last regeneration (sha256 %s)" % key
                    return r
            except Exception:
                pass
        st = {}
        for name, script in GENERATORS:
            r = sh([sys.executable, os.path.join(VERIF, "gen", script)])
            try:
                val = json.loads(r.stdout.strip().splitlines()[-1])
            except Exception:
                val = {"error": r.stdout[-500:]}
            if name == "constants":
                st.update(val if isinstance(val, dict) else {"error": str(val)})
            else:
                st[name] = val
        if all(os.path.exists(o) for o in outs):
            try:
                json.dump({"key": sha_files(srcs + outs), "status": st}, open(stamp_path, "w"))
            except Exception:
                pass
    return st


# which properties carry tie obligations over which generator's output: when the generator can no longer translate a
# function of the CURRENT source (it then keeps its previous output) the tie theorems speak about stale text, so the
# property is no longer shown for the code as it is now - that is an undischarged obligation, not a silent fallback
TIE_PROPERTIES = {
    "ast_translation": ["C04", "C05", "C17"],
    "ast_translation_checked64": ["C04", "C05", "C17", "C01"],
    "ast_translation_posix_parser": ["C16", "C12", "C09", "C01"],
    "ast_translation_fixed_and_format_output": ["C15", "C08", "C07", "C09"],
    "ast_translation_zone_queries": ["C01", "C02", "C11", "C14"],
    "ast_translation_zone_loader": ["C01", "C12", "C13", "C19", "C20"],
    "ast_translation_chrono_templates": ["C18", "C11"],
}


def stale_ties(const_status, pid):
    """names of source functions whose translation failed in this run and that a tie obligation of `pid` rests on"""
    out = []
    def scan(name, st):
        if not isinstance(st, dict):
            return
        if st.get("error"):
            out.append("%s: generator error %s" % (name, str(st["error"])[-120:]))
        for fn, why in (st.get("untranslated") or {}).items():
            out.append("%s: %s untranslated (%s)" % (name, fn, str(why)[:100]))
        for k, sub in st.items():
            if isinstance(sub, dict) and k not in ("untranslated",):
                scan(name + "/" + k, sub)
    for gen, props in TIE_PROPERTIES.items():
        if pid in props:
            scan(gen, const_status.get(gen))
    return out


class CoqLock:
    """serialise everything that writes under coq/ (make, coqc, extraction)"""
    def __enter__(self):
        import fcntl
        self.f = open(os.path.join(COQ, ".lock"), "w")
        fcntl.flock(self.f, fcntl.LOCK_EX)
        return self
    def __exit__(self, *a):
        import fcntl
        fcntl.flock(self.f, fcntl.LOCK_UN)
        self.f.close()


def coq_make(targets=None, keep_going=True, timeout=3000):
    """Full .vo build (never -vos).  Returns (ok, log)."""
    with CoqLock():
        return _coq_make(targets, keep_going, timeout)


def _coq_make(targets=None, keep_going=True, timeout=3000):
    mk, cp = os.path.join(COQ, "Makefile"), os.path.join(COQ, "_CoqProject")
    if not os.path.exists(mk) or os.path.getmtime(mk) < os.path.getmtime(cp):
        r = sh(["coq_makefile", "-f", "_CoqProject", "-o", "Makefile"], cwd=COQ)
        if r.returncode != 0:
            return False, r.stdout
    cmd = ["timeout", str(timeout), "make", "-j16"] + (["-k"] if keep_going else []) + (targets or [])
    r = sh(cmd, cwd=COQ)
    return r.returncode == 0, r.stdout


GATE_RE = re.compile(r"\b(Admitted|admit|Axiom|Parameter|Conjecture|Unset Guard|bypass_check|type-in-type|impredicative-set|Admit Obligations)\b")


def grep_gate():
    """Reject forbidden vernacular anywhere under coq/ (comments excluded)."""
    bad = []
    # the development = the files listed in _CoqProject (scratch files beside them are not built)
    listed = [l.strip() for l in open(os.path.join(COQ, "_CoqProject")) if l.strip().endswith(".v")]
    for fn in sorted(listed):
        if not os.path.exists(os.path.join(COQ, fn)):
            continue
        text = open(os.path.join(COQ, fn)).read()
        # strip comments (non-nested is enough for our files; nested handled by loop)
        prev = None
        while prev != text:
            prev = text
            text = re.sub(r"\(\*[^*(]*(?:\*(?!\))[^*(]*|\((?!\*)[^*(]*)*\*\)", " ", text)
        for m in GATE_RE.finditer(text):
            bad.append("%s:%s" % (fn, m.group(1)))
    return bad


def prove(pid):
    """Force-recompile Properties_<pid>.v and parse Print Assumptions output.
    Returns dict(obligations=[...], discharged=[...], failed=[...], axioms={thm: [...]}, log=...)."""
    obl_all = json.load(open(os.path.join(COQ, "OBLIGATIONS.json")))
    obligations = obl_all.get(pid, [])
    fn = "Properties_%s.v" % pid
    res = {"obligations": obligations, "discharged": [], "failed": [], "axioms": {}, "log": ""}
    if not os.path.exists(os.path.join(COQ, fn)):
        res["failed"] = list(obligations)
        res["log"] = "missing " + fn
        return res
    ok, log = coq_make()
    # Properties_<pid>.v, and - for theorems that depend on that file itself - an optional Properties_<pid>_more.v
    fns = [fn] + (["Properties_%s_more.v" % pid] if os.path.exists(os.path.join(COQ, "Properties_%s_more.v" % pid)) else [])
    src = ""
    for f in fns:
        vo = os.path.join(COQ, f + "o")
        # force recompile of the property file to capture its output
        with CoqLock():
            r = sh(["timeout", "1200", "coqc", "-Q", ".", "CCTZ", f], cwd=COQ)
        res["log"] += (log[-2000:] if not ok else "") + r.stdout[-6000:]
        if r.returncode != 0 or not os.path.exists(vo):
            if f == fn:
                res["failed"] = list(obligations)
                return res
            continue        # the obligations of the second file stay undischarged
        # Print Assumptions output: sequence of blocks, in file order of 'Print Assumptions X.'
        fsrc = open(os.path.join(COQ, f)).read()
        src += fsrc
        printed = re.findall(r"Print Assumptions\s+([A-Za-z0-9_']+)\s*\.", fsrc)
        blocks = re.split(r"(?=Closed under the global context|Axioms:)", r.stdout)
        blocks = [b for b in blocks if b.startswith("Closed under") or b.startswith("Axioms:")]
        for name, blk in zip(printed, blocks):
            if blk.startswith("Closed under"):
                res["axioms"][name] = []
            else:
                res["axioms"][name] = [l.split(":")[0].strip() for l in blk.splitlines()[1:] if l and not l.startswith(" ") and ":" in l]
    theorems = set(re.findall(r"(?:Theorem|Lemma|Corollary)\s+([A-Za-z0-9_']+)", src))
    for o in obligations:
        if o in theorems and o in res["axioms"] and res["axioms"][o] == []:
            res["discharged"].append(o)
        elif o in theorems and o in res["axioms"]:
            # standard-library axioms only would be acceptable; we plan for none
            res["failed"].append(o)
        else:
            res["failed"].append(o)
    return res


# ----------------------------------------------------------------------------
# Driver (extracted model)

def build_driver():
    ok, log = coq_make(["Extract.vo"])
    if not ok:
        return None, log
    srcs = [os.path.join(COQ, "model.ml"), os.path.join(COQ, "model.mli")] + \
           [os.path.join(VERIF, "ocaml", f) for f in sorted(os.listdir(os.path.join(VERIF, "ocaml"))) if f.endswith(".ml") or f.endswith(".c")]
    key = sha_files(srcs)
    final = os.path.join(CACHE, "driver", key)
    exe = os.path.join(final, "driver")
    if os.path.exists(exe):
        return exe, "cached"
    os.makedirs(os.path.join(CACHE, "driver"), exist_ok=True)
    d = final + ".tmp.%d" % os.getpid()
    shutil.rmtree(d, ignore_errors=True)
    os.makedirs(d)
    for s in srcs:
        shutil.copy(s, d)
    mls = ["model.mli", "model.ml"] + [f for f in ["libc_stub.c", "util.ml", "driver_zone.ml", "driver_fmt.ml", "driver.ml"] if os.path.exists(os.path.join(d, f))]
    r = sh(["ocamlfind", "ocamlopt", "-w", "-a"] + mls + ["-o", "driver"], cwd=d)
    if r.returncode != 0:
        shutil.rmtree(d, ignore_errors=True)
        return None, r.stdout
    try:
        os.rename(d, final)
    except OSError:
        shutil.rmtree(d, ignore_errors=True)
    return exe, "built"


# ----------------------------------------------------------------------------
# Harness (the real cctz from /repo's working tree)

def repo_sources():
    paths = []
    for root in ("include/cctz", "src"):
        d = os.path.join(REPO, root)
        for f in sorted(os.listdir(d)):
            if f.endswith((".h", ".cc")) and not f.endswith("_test.cc") and f not in ("cctz_benchmark.cc", "time_tool.cc"):
                paths.append(os.path.join(d, f))
    return paths


def build_harness(variant="asan", extra_flags=None, harness_src="harness.cc"):
    """Compile harness + cctz sources from /repo (current working tree)."""
    flags = ["-std=c++11", "-O1", "-g", "-D" + GUARD, "-I" + os.path.join(REPO, "include"),
             "-I" + os.path.join(REPO, "src"), "-I" + os.path.join(VERIF, "harness"), "-pthread"]
    if variant == "asan":
        flags += SAN_FLAGS
    elif variant == "ubsan":
        flags += ["-fsanitize=undefined", "-fno-omit-frame-pointer"]
    elif variant == "tsan":
        flags += ["-fsanitize=thread"]
    elif variant == "plain":
        pass
    flags += (extra_flags or [])
    hdir = os.path.join(VERIF, "harness")
    hsrcs = [os.path.join(hdir, f) for f in sorted(os.listdir(hdir)) if f.endswith((".cc", ".inc", ".h"))]
    key = sha_files(repo_sources() + hsrcs, extra=" ".join(flags) + harness_src + CXX)
    final = os.path.join(CACHE, "harness", key)
    exe = os.path.join(final, "harness")
    if os.path.exists(exe):
        try:
            os.utime(final, None)
        except OSError:
            pass
        return exe, "cached"
    os.makedirs(os.path.join(CACHE, "harness"), exist_ok=True)
    d = final + ".tmp.%d" % os.getpid()      # private build dir: concurrent checks cannot disturb each other
    shutil.rmtree(d, ignore_errors=True)
    os.makedirs(d)
    exe_tmp = os.path.join(d, "harness")
    units = [os.path.join(REPO, "src", s) for s in LIB_SRCS] + [os.path.join(hdir, harness_src)]

    def cc(u):
        o = os.path.join(d, os.path.basename(u) + ".o")
        r = sh([CXX] + flags + ["-c", u, "-o", o])
        return (r.returncode, r.stdout, o)
    with ThreadPoolExecutor(max_workers=12) as ex:
        results = list(ex.map(cc, units))
    for rc, out, o in results:
        if rc != 0:
            shutil.rmtree(d, ignore_errors=True)
            return None, out
    r = sh([CXX] + flags + [o for _, _, o in results] + ["-o", exe_tmp])
    if r.returncode != 0:
        shutil.rmtree(d, ignore_errors=True)
        return None, r.stdout
    for _, _, o in results:
        os.remove(o)
    try:
        os.rename(d, final)
    except OSError:
        shutil.rmtree(d, ignore_errors=True)     # somebody else finished the same build first
    # keep the cache small: drop builds not used for a while (never the recent ones)
    hroot = os.path.join(CACHE, "harness")
    olds = sorted((os.path.getmtime(os.path.join(hroot, x)), x) for x in os.listdir(hroot) if ".tmp." not in x)
    for _, x in olds[:-12]:
        shutil.rmtree(os.path.join(hroot, x), ignore_errors=True)
    return exe, "built"


def run_exe(exe, cases_path, out_path, env=None, timeout=3600):
    e = dict(os.environ)
    e["ASAN_OPTIONS"] = "detect_leaks=0:abort_on_error=0:exitcode=99"
    e["UBSAN_OPTIONS"] = "print_stacktrace=0:halt_on_error=0"
    e["TZDIR"] = os.path.join(REPO, "testdata", "zoneinfo")
    if env:
        e.update(env)
    with open(out_path + ".err", "w") as errf:
        r = subprocess.run(["timeout", str(timeout), exe, cases_path, out_path], env=e,
                           stdout=subprocess.DEVNULL, stderr=errf)
    return r.returncode


def run_sharded(exe, cases, workdir, tag, shards=14, env=None, timeout=3600, interleave=False):
    """Run [exe] over the case list split into shards; returns (lines, failures).
    failures: list of (global_case_index, stderr_tail) for shards that aborted.
    interleave=True deals cases round-robin (spreads expensive cases; only for
    stateless operations - zone cases stay contiguous so each shard loads few zones)."""
    if os.sep + "driver" + os.sep in exe or exe.endswith("driver"):
        # the extracted model is total (it cannot hang); on a loaded machine a thorough shard can need more than an
        # hour of wall-clock time, and a timeout there would be reported as a broken check
        timeout = max(timeout, int(os.environ.get("VERIF_DRIVER_TIMEOUT", "21600")))
    if interleave and len(cases) > 400:
        k = min(shards, (len(cases) + 199) // 200)
        parts = [cases[i::k] for i in range(k)]
        outs, fails = [], []
        flat = [c for p in parts for c in p]
        lines, fl = run_sharded(exe, flat, workdir, tag, shards=shards, env=env, timeout=timeout, interleave=False)
        # undo the permutation
        res = [None] * len(cases)
        pos = 0
        back = {}
        for i in range(k):
            for j in range(len(parts[i])):
                res[i + j * k] = lines[pos]
                back[pos] = i + j * k
                pos += 1
        return res, [(back.get(ix, ix), e) for ix, e in fl]
    n = len(cases)
    shards = max(1, min(shards, (n + 199) // 200))
    size = (n + shards - 1) // shards
    jobs = []
    for k in range(shards):
        chunk = cases[k * size:(k + 1) * size]
        if not chunk:
            continue
        cp = os.path.join(workdir, "%s.%d.cases" % (tag, k))
        op = os.path.join(workdir, "%s.%d.out" % (tag, k))
        with open(cp, "w") as f:
            f.write("\n".join(chunk) + "\n")
        jobs.append((k, cp, op, len(chunk)))

    def go(j):
        k, cp, op, cnt = j
        rc = run_exe(exe, cp, op, env=env, timeout=timeout)
        lines = open(op).read().split("\n") if os.path.exists(op) else []
        if lines and lines[-1] == "":
            lines.pop()
        err = open(op + ".err").read() if os.path.exists(op + ".err") else ""
        return (k, rc, lines, err, cnt)
    with ThreadPoolExecutor(max_workers=16) as ex:
        rs = list(ex.map(go, jobs))
    out, failures = [], []
    for k, rc, lines, err, cnt in sorted(rs):
        if len(lines) < cnt:
            failures.append((k * size + len(lines), "rc=%d " % rc + err[-1500:]))
            lines = lines + ["?ABORT"] * (cnt - len(lines))
        for j, l in enumerate(lines[:cnt]):
            if l.startswith("?ABORT"):
                failures.append((k * size + j, err[-3000:]))
        out.extend(lines[:cnt])
    return out, failures


# ----------------------------------------------------------------------------
# Decision

DRV_RE = re.compile(r"^M (.*) ; S (.*) ; P ([01])(?: ; K (\S+))?$")


class Verdict:
    def __init__(self):
        self.prop_fail = []      # (idx, case, impl, model, spec, why)
        self.corr_fail = []      # (idx, case, impl, model, spec)
        self.notes = {}
        self.in_domain = 0
        self.model_err = 0
        self.ub = 0


def compare(cases, impl_lines, drv_lines, impl_failures=(), norm=None, ub_is_violation=False, model_err_is_violation=False):
    v = Verdict()
    for i, (c, il, dl) in enumerate(zip(cases, impl_lines, drv_lines)):
        if not c or c.startswith("#"):
            continue
        if c.startswith("cert "):
            continue
        m = DRV_RE.match(dl)
        if not m:
            v.corr_fail.append((i, c, il, dl, "", "driver-output-unparsed"))
            continue
        M, S, P = m.group(1), m.group(2), m.group(3) == "1"
        if m.group(4) and (not il.startswith("?ABORT") or il.strip() == "?ABORT status=6"):
            # the known-finding tag names a family of inputs on which a KNOWN wrong answer is expected (for F9 also
            # the library's own assert() after the recorded overflow: SIGABRT, status 6); an AddressSanitizer
            # report, a crash or a timeout is never part of a recorded finding and is never suppressed
            c = c + "  #K=" + m.group(4)
        ub = il.endswith(" UB")
        iv = il[:-3] if ub else il
        if norm:
            iv, M, S = norm(c, iv), norm(c, M), norm(c, S)
        if ub:
            v.ub += 1
        if il.startswith("?ABORT"):
            v.prop_fail.append((i, c, il, M, S, "implementation aborted (sanitizer/timeout) on or before this case"))
            continue
        if ub and ub_is_violation and not P:
            v.prop_fail.append((i, c, il, M, S, "undefined behaviour reported by UBSan (the property forbids it for every input)"))
            continue
        if P:
            v.in_domain += 1
            if ub:
                v.prop_fail.append((i, c, il, M, S, "undefined behaviour reported by UBSan inside the property's domain"))
                continue
            if iv != S:
                v.prop_fail.append((i, c, il, M, S, "implementation output differs from the specification"))
                continue
        if M.startswith("ERR:") and model_err_is_violation:
            v.model_err += 1
            v.prop_fail.append((i, c, il, M, S, "the model reaches an undefined operation (%s) on this input: the C++ has undefined behaviour here even where no sanitizer observes it" % M))
            continue
        if M.startswith("ERR:"):
            v.model_err += 1
            if P:
                v.corr_fail.append((i, c, il, M, S, "model errs inside the property domain (theorem would be false)"))
            elif not ub:
                v.notes["model_err_impl_silent"] = v.notes.get("model_err_impl_silent", 0) + 1
        else:
            if ub:
                v.corr_fail.append((i, c, il, M, S, "UBSan report where the model predicts none"))
            elif iv != M:
                v.corr_fail.append((i, c, il, M, S, "implementation differs from model"))
    return v


def load_known(pid):
    p = os.path.join(VERIF, "known_findings.json")
    if not os.path.exists(p):
        return []
    return [e for e in json.load(open(p)).get("findings", []) if e.get("property") == pid and e.get("status") == "known"]


def match_known(known, case):
    for e in known:
        rx = e.get("case_regex")
        if rx and re.search(rx, case):
            return e
    return None


def write_replay(pid, payload):
    d = os.path.join(VERIF, "replays", pid)
    os.makedirs(d, exist_ok=True)
    h = hashlib.sha256(json.dumps(payload, sort_keys=True).encode()).hexdigest()[:16]
    p = os.path.join(d, h + ".json")
    with open(p, "w") as f:
        json.dump(payload, f, indent=1)
    return p


def write_evidence(pid, tier, seed, coverage, wall, violations, assumptions=None):
    os.makedirs(os.path.join(VERIF, "evidence"), exist_ok=True)
    ev = {"property_id": pid, "tier": tier, "seed": seed, "level": "proof",
          "coverage": coverage, "assumptions": assumptions or [], "wall_s": round(wall, 2),
          "violations": violations}
    with open(os.path.join(VERIF, "evidence", pid + ".json"), "w") as f:
        json.dump(ev, f, indent=1)
    return ev


class Rng(random.Random):
    pass


I64_MIN = -(1 << 63)
I64_MAX = (1 << 63) - 1
