"""Generators for format/parse: C07 (round trip), C08 (rendering), C09 (parse)."""
from . import gen_zone
from .gen_zone import civil_of_seconds, days_from_civil, fmt_cs
from .common import I64_MIN, I64_MAX

LIB = ["%Y", "%m", "%d", "%e", "%H", "%M", "%S", "%z", "%Z", "%s", "%%", "%Ez", "%E*z", "%:z", "%::z", "%:::z",
       "%E0S", "%E1S", "%E3S", "%E9S", "%E14S", "%E15S", "%E16S", "%E17S", "%E18S", "%E19S", "%E1024S", "%E*S", "%E0f", "%E1f", "%E6f", "%E15f",
       "%E16f", "%E17f", "%E18f", "%E19f", "%E*f", "%E4Y", "%ET", "%U", "%W", "%u", "%w"]
LIBC = ["%a", "%A", "%b", "%B", "%c", "%C", "%D", "%F", "%g", "%G", "%h", "%I", "%j", "%n", "%p", "%r", "%R", "%t",
        "%T", "%V", "%x", "%X", "%y", "%Ec", "%EC", "%Ex", "%EX", "%Ey", "%EY", "%Od", "%Oe", "%OH", "%OI", "%Om",
        "%OM", "%OS", "%Ou", "%OU", "%OV", "%Ow", "%OW", "%Oy", "%k", "%l", "%P"]
ODD = ["%", "%E", "%E*", "%:", "%::", "%:::", "%E5", "%E1025S", "%E99999999999S", "%E" + "9" * 40 + "f", "%E4", "%E*x", "%Q",
       "%E5x", "%:x", "%::x", "%O", "%E\0", "%\0", "\0", "%E-1S", "%E 3S", "\xff", "%\xff", "%E\xff", "%5Y", "%-d", "%_d", "%^a", "%+", "%10Y"]
LITS = ["-", ":", "/", " ", "T", ".", ",", "x", "abc", "  ", "\t", "%%", "%%%%", "5", "Z", "+", "é"]


def hx(s):
    b = s if isinstance(s, bytes) else s.encode("latin-1")
    return b.hex() if b else "-"


FS = [0, 1, 9, 10, 999, 1000, 10 ** 6 - 1, 10 ** 9, 5 * 10 ** 14, 10 ** 15 - 1, 123456789012345, 100000000000000, 10 ** 14 - 1,
      333333333333333, 10 ** 12]
# every number of trailing zeros (0..14) behind non-zero digits: the boundaries of any digit-count shortcut in %E*S / %E*f
FS += [(123456789123456 // 10 ** k) * 10 ** k + (0 if (123456789123456 // 10 ** k) % 10 else 10 ** k) for k in range(15)]
FS += [10 ** k for k in range(15)] + [7 * 10 ** k for k in range(15)]


def fmt_zones(tier, rng):
    zs = gen_zone.real_zones("quick", rng)
    if tier == "quick":
        zs = zs[:18]
    syn = [z for z in gen_zone.synthetic_zones(rng, tier) if z[0] in ("syn_submin", "syn_negdst", "syn_east", "synT_26_30", "syn_allyear", "synM_5_3_0")]
    return zs + syn


def fixed_ids():
    return [gen_zone.named(gen_zone.fixed_name(o)) for o in (1, -1, 59, -59, 60, -60, 61, 3599, -3599, 3600, -3600, 86399, -86399, 86400, -86400, 45296, -45296)] + [gen_zone.named(b"UTC")]


def zone_instants(data, rng, k):
    r = gen_zone.probe_instants(data, "quick", rng, max_trans=10)
    inst = sorted(set(r[0]))
    base = [I64_MIN, I64_MIN + 1, I64_MAX, I64_MAX - 1, 0, -1, 1, 951782400, 1709251199, -62135596800, -62135596801, 253402300799, 253402300800,
            -62167219200 - 1, -62167219200, 32503680000 * 30, -(1 << 40), 1 << 45]
    return base + rng.sample(inst, min(len(inst), k))


def random_format(rng, n_items, pools):
    out = ""
    for _ in range(n_items):
        out += rng.choice(rng.choice(pools))
    return out


def gen_c08(tier, rng):
    zones = fmt_zones(tier, rng)
    ids = [(z[0], z[1]) for z in zones]
    cases = []
    nfmt = 60 if tier == "quick" else 3000
    for zid, data in ids:
        ts = zone_instants(data, rng, 8)
        # every library specifier alone at every probe
        for sp in LIB:
            for t in rng.sample(ts, min(len(ts), 6)):
                cases.append("fmt %s %s %d %d" % (zid, hx(sp), t, rng.choice(FS)))
        for _ in range(nfmt):
            r = rng.random()
            if r < 0.45:
                f = random_format(rng, rng.randint(1, 8), [LIB, LITS, LIB])
            elif r < 0.7:
                f = random_format(rng, rng.randint(1, 8), [LIB, LITS, LIBC])
            elif r < 0.9:
                f = random_format(rng, rng.randint(1, 6), [LIB, LITS, LIBC, ODD])
            else:
                f = "".join(chr(rng.choice([37, 37, 69, 42, 58, 83, 102, 122, 89, 52, 48, 57, 0, 32, 255, rng.randrange(256)])) for _ in range(rng.randint(0, 12)))
            cases.append("fmt %s %s %d %d" % (zid, hx(f), rng.choice(ts), rng.choice(FS)))
    # scratch-buffer stress: extreme years, -2^63, 18-digit fractions, in fixed zones
    for zid in fixed_ids():
        for t in (I64_MIN, I64_MAX, 0, -1, 1 << 62, -(1 << 62)):
            for f in ("%Y", "%s", "%E18S", "%E*S", "%E4Y", "%E15f", "%z|%:z|%::z|%:::z|%Ez|%E*z", "%Y-%m-%dT%H:%M:%E*S%Ez", "%c|%D|%G|%y"):
                cases.append("fmt %s %s %d %d" % (zid, hx(f), t, rng.choice([0, 10 ** 15 - 1, 1])))
    # ToTM's tm_year saturation: civil years around INT_MAX + 1900, INT_MAX, INT_MAX - 1900 and the
    # negative counterparts, with every specifier strftime derives from tm_year
    def t_of_year(y):
        d = 365 * (y - 1970) + ((y - 1969) // 4) - ((y - 1901) // 100) + ((y - 1601) // 400)
        return d * 86400
    I32 = 2147483647
    yrs = []
    for c in (I32 + 1900, I32, I32 - 1900, -I32 - 1 + 1900, -I32 - 1, -I32 - 1 - 1900):
        yrs += [c - 1901, c - 1900, c - 1899, c - 2, c - 1, c, c + 1, c + 2, c + 1899, c + 1900, c + 1901, c + rng.randint(-1900, 1900)]
    zs = [fixed_ids()[-1], fixed_ids()[0]] + [z[0] for z in zones[:2]]
    for y in yrs:
        t = t_of_year(y) + rng.randint(0, 360 * 86400)
        for f in ("%y|%C|%G|%g", "%c", "%D|%x", "%Y|%y|%j|%a|%U|%W|%V", "%C%y %F"):
            cases.append("fmt %s %s %d %d" % (rng.choice(zs), hx(f), t, 0))
    # glibc width-padded conversions around FormatTM's 16x cap (finding F12: at and beyond the cap nothing is rendered)
    for f in ("%63c", "%64c", "%94c", "%31a", "%32a", "%33a", "ab%47Y", "ab%48j", "%15p", "%16p"):
        cases.append("fmt %s %s %d 0" % (fixed_ids()[-1], hx(f), rng.choice([0, 1709251199])))
    # long runs for FormatTM's growing buffer
    for k in (1, 5, 17, 64):
        cases.append("fmt %s %s 0 0" % (fixed_ids()[-1], hx("%c" * k)))
        cases.append("fmt %s %s 0 0" % (fixed_ids()[-1], hx("%%a" * k + "%A")))
        cases.append("fmt %s %s 0 0" % (fixed_ids()[-1], hx("x" * k + "%Y")))
    return cases, zones


# ---- C07 ----
BASE_FORMATS = ("%Y-%m-%dT%H:%M:%E*S%E*z", "%Y-%m-%d %H:%M:%S.%E*f %::z", "%s", "%E4Y/%m/%d %H:%M:%E15S %:::z",
                "%Y week %U day %w %H:%M:%E*S %E*z", "%Y-W%W-%u %H:%M:%E*S %E*z")
SEPS = ["-", "/", ":", "T", " ", "_", ".", ",", ""]


def lossless_format(rng, off_has_seconds):
    year = rng.choice(["%Y", "%Y", "%E4Y"])
    date = [year, "%m", "%d"]
    if rng.random() < 0.15:
        # the date through a week number and a weekday (the year must be the full %Y)
        date = ["%Y"] + rng.choice([["%U", "%w"], ["%W", "%u"], ["%U", "%u"], ["%W", "%w"]])
    elif rng.random() < 0.12:
        # the month (and, redundantly, the weekday) by its locale name
        date = rng.choice([[], ["%a"], ["%A"]]) + [year, rng.choice(["%b", "%B", "%h"]), "%d"]
    if rng.random() < 0.2:
        # the day blank-padded (%e): " 9" must parse back (fixed in /repo fa0b6d4)
        date = [("%e" if x == "%d" else x) for x in date]
    secs = rng.choice([["%E*S"], ["%S", ".", "%E*f"], ["%E15S"], ["%E18S"], ["%S", ",", "%E15f"]])
    tm = ["%H", "%M"] + secs
    offs = rng.choice(["%E*z", "%::z", "%:::z"] if off_has_seconds or rng.random() < 0.5 else ["%Ez", "%:z", "%z"])
    items = []
    groups = [date, tm, [offs]]
    if rng.random() < 0.4:
        rng.shuffle(groups)
    for g in groups:
        if g is date and rng.random() < 0.3:
            g = g[:]
            rng.shuffle(g)
        for it in g:
            items.append(it)
            items.append(rng.choice(SEPS[:8]) if it not in (".", ",") else "")
    f = "".join(items)
    if rng.random() < 0.2:
        f = "%s"
    if rng.random() < 0.1:
        f = f + " %%" + rng.choice(["", "%ET"])
    return f


def gen_c07(tier, rng):
    zones = fmt_zones(tier, rng)
    ids = [(z[0], z[1]) for z in zones] + [(i, None) for i in fixed_ids()]
    cases = []
    n = 40 if tier == "quick" else 2500
    pzones = [gen_zone.named(gen_zone.fixed_name(o)) for o in (-3600, 3600, -30, 30, -86399, 86399)] + [z[0] for z in zones[:8]]
    for zid, data in ids:
        ts = zone_instants(data, rng, 12) if data else [I64_MIN, I64_MIN + 86400 * 2, I64_MAX, I64_MAX - 86400 * 2, 0, -1, 1 << 40, -(1 << 40), 1709251199, -62135596800, 253402300800, -62167219201]
        # "any_zone": the zone handed to parse() is the formatting zone, UTC (default), or an unrelated one
        def pz():
            r = rng.random()
            if r < 0.4:
                return ""
            if r < 0.6:
                return " " + zid
            return " " + rng.choice(pzones)
        for _ in range(n):
            f = lossless_format(rng, True if rng.random() < 0.6 else False)
            cases.append("fp %s %s %d %d%s" % (zid, hx(f), rng.choice(ts), rng.choice(FS), pz()))
        for f in ("%Y-%m-%dT%H:%M:%E*S%E*z", "%Y-%m-%d %H:%M:%S.%E*f %::z", "%s", "%E4Y/%m/%d %H:%M:%E15S %:::z",
                  "%Y week %U day %w %H:%M:%E*S %E*z", "%Y-W%W-%u %H:%M:%E*S %E*z",
                  "%A, %d %B %Y %H:%M:%E*S %E*z", "%a %b %d %H:%M:%E15S %Y %::z",
                  "%Y-%m-%e %H:%M:%E*S%E*z", "%e.%m.%Y %H:%M:%E*S %E*z", "%Y/%m/%e-%H:%M:%E*S %::z",
                  # a strftime-delegated (locale-name) field pending right before each kind of library specifier: the flush
                  # of the pending run happens in a different branch of format() for each of them
                  "%Y-%m-%d %H:%M:%E*S %a %E*z", "%d %H:%M:%E*S %Y %B %E*z", "%Y-%m-%d %H:%M:%E*S %A (%E*z)",
                  "%Y-%m-%d %H:%M:%E*S %a%::z", "%m-%d %a%E4Y %H:%M:%E*S %E*z",
                  "%Y-%m-%d %A%ET%H:%M:%E*S %E*z", "%Y-%m-%d %H:%M:%a%E*S %E*z", "%Y-%m-%d %H:%M:%S %b%E15f %E*z",
                  "%Y-%m-%d %H:%M:%b%E18S %E*z", "%Y-%m-%d %a%H:%M:%E*S %A%:::z", "%a%Y-%b-%d %H:%M:%E*S %h%E*z",
                  # finding F15 (one format per family): a lossy item AFTER the lossless one it duplicates - tagged by the
                  # driver from the executable side condition last_writer_ok_x, reported as KNOWN-FINDING
                  "%Y-%m-%d %U %H:%M:%E*S%E*z", "%Y-%m-%d %H:%M:%E*S %E3f %E*z", "%Y-%m-%d %H:%M:%E*S %E*z %z",
                  "%Y %E4Y-%m-%d %H:%M:%E*S %E*z", "%Y %E0f %m-%d %H:%M:%E*S%E*z",
                  # ... and their harmless twins (the lossless item comes last): must round-trip
                  "%U %Y-%m-%d %H:%M:%E*S%E*z", "%Y-%m-%d %H:%M:%E3f %E*S %E*z", "%Y-%m-%d %H:%M:%E*S %z %E*z"):
            for t in (ts if (tier != "quick" or f in BASE_FORMATS) else rng.sample(ts, min(len(ts), 5))):
                cases.append("fp %s %s %d %d%s" % (zid, hx(f), t, rng.choice(FS), pz()))
            # the two ends of the range with every kind of parse zone (parse()'s overflow checks consult a zone)
            for t in (I64_MAX, I64_MIN, I64_MAX - 1, I64_MIN + 1):
                for p in pzones[:6] + [zid]:
                    cases.append("fp %s %s %d %d %s" % (zid, hx(f), t, rng.choice(FS), p))
    return cases, zones


# ---- C09 ----

def two(v):
    return "%02d" % v


def render_field(spec, val):
    return {"%Y": str(val), "%m": two(val), "%d": two(val), "%H": two(val), "%M": two(val), "%S": two(val)}[spec]


def gen_c09(tier, rng):
    zones = fmt_zones(tier, rng)
    ids = [z[0] for z in zones][:10] + fixed_ids()[:6]
    cases = []
    n = 2500 if tier == "quick" else 150000
    RANGES = {"%m": (1, 12), "%d": (1, 31), "%H": (0, 23), "%M": (0, 59), "%S": (0, 60)}
    for _ in range(n):
        zid = rng.choice(ids)
        y = rng.choice([1970, 2024, 1, 0, -1, 9999, 10000, -9999, 1600, 2400, rng.randint(-5000, 5000),
                        292277026596, -292277022657, 292277026597, -292277022658, I64_MAX, I64_MIN, I64_MAX - 1])
        m, d = rng.randint(1, 12), rng.randint(1, 28)
        if rng.random() < 0.15:
            d = rng.choice([29, 30, 31])
        H, M, S = rng.randint(0, 23), rng.randint(0, 59), rng.randint(0, 59)
        frac = rng.choice(["", "", ".5", ".000000000000001", ".123456789012345678", ".999999999999999", ".0"])
        with_off = rng.random() < 0.6
        off = rng.choice([0, 3600, -3600, 19800, -12600, 86340, -86340, 45296, -45296, 59, -59, 86399, -86399]) if with_off else None
        if rng.random() < 0.04:
            # the leap second at the end of a day / month / year: :60 rolls over into the next day
            H, M, S = 23, 59, 60
            if rng.random() < 0.5:
                m, d = rng.choice([(12, 31), (6, 30), (2, 28), (1, 31)])
        vals = {"%Y": y, "%m": m, "%d": d, "%H": H, "%M": M, "%S": S}
        # boundary pushing: one field just outside / at its range
        mode = rng.random()
        reject = False
        if mode < 0.25:
            k = rng.choice(list(RANGES))
            lo, hi = RANGES[k]
            v = rng.choice([lo - 1, lo, hi, hi + 1])
            vals[k] = v
            if v < lo or v > hi or v < 0:
                reject = True
        order = ["%Y", "%m", "%d", "%H", "%M", "%S"]
        seps = ["-", "-", "T", ":", ":", ""]
        fmt, inp = "", ""
        day_e = rng.random() < 0.12 and 1 <= vals["%d"] <= 31
        for sp, se in zip(order, seps):
            fmt += ("%e" if (sp == "%d" and day_e) else sp) + se
            if sp == "%Y":
                inp += str(vals[sp]) + se
            elif sp == "%d" and day_e:
                # %e as format() renders it: blank-padded (accepted since fa0b6d4)
                inp += ("%2d" % vals[sp]) + se
            else:
                inp += ("%02d" % vals[sp] if vals[sp] >= 0 else str(vals[sp])) + se
        fsv = 0
        if frac:
            fmt = fmt[:-2] + "%E*S"
            inp += frac
            digs = (frac[1:] + "0" * 15)[:15]
            fsv = int(digs)
        if with_off:
            style = rng.choice(["%z", "%Ez", "%E*z", "%:z", "%::z"])
            a = abs(off)
            sg = "-" if off < 0 else "+"
            if style == "%z":
                txt = "%s%02d%02d" % (sg, a // 3600, a // 60 % 60)
                if a % 60:
                    txt += "%02d" % (a % 60)
            else:
                txt = "%s%02d:%02d" % (sg, a // 3600, a // 60 % 60)
                if a % 60:
                    txt += ":%02d" % (a % 60)
            # a lone digit after the hours (or minutes) group is literal text, not part of the offset
            # (finding F13: ParseOffset kept its value although it did not consume it)
            if style != "%z" and rng.random() < 0.08:
                dgt = str(rng.randint(1, 9))
                if rng.random() < 0.5:
                    off = (a // 3600) * 3600 * (-1 if off < 0 else 1)
                    txt = "%s%02d" % (sg, a // 3600)
                else:
                    off = (a // 60) * 60 * (-1 if off < 0 else 1)
                    txt = "%s%02d:%02d" % (sg, a // 3600, a // 60 % 60)
                tailtxt = rng.choice([":" + dgt, ":" + dgt + "x", ":" + dgt + " "])
                style = style + tailtxt
                txt = txt + tailtxt
            fmt += " " + style
            inp += " " + txt
        # expected
        Dim = [31, 29 if gen_zone.is_leap(y) else 28, 31, 30, 31, 30, 31, 31, 30, 31, 30, 31]
        if not reject and not (1 <= vals["%m"] <= 12 and 1 <= vals["%d"] <= Dim[vals["%m"] - 1]):
            reject = True
        exp = ""
        if reject:
            exp = "REJ"
        else:
            sec = vals["%S"]
            leap = sec == 60
            L = days_from_civil(y, vals["%m"], vals["%d"]) * 86400 + vals["%H"] * 3600 + vals["%M"] * 60 + (59 if leap else sec)
            f_out = 0 if leap else fsv
            if with_off:
                t = L - off + (1 if leap else 0)
                exp = "EXP %d %d" % (t, f_out) if I64_MIN <= t <= I64_MAX else "REJ"
            else:
                cs = civil_of_seconds(L + (1 if leap else 0))
                if I64_MIN <= cs[0] <= I64_MAX:
                    exp = "CIV %s %d" % (fmt_cs(cs), f_out)
                else:
                    exp = "REJ"
        # single-character mutation of the input (expected outcome then unknown: model decides)
        if rng.random() < 0.2 and inp:
            i = rng.randrange(len(inp))
            w = rng.random()
            if w < 0.34:
                inp = inp[:i] + inp[i + 1:]
            elif w < 0.67:
                inp = inp[:i] + rng.choice("0123456789:-+ T.x") + inp[i + 1:]
            else:
                inp = inp[:i] + rng.choice("0123456789:-+ T.x") + inp[i:]
            exp = ""
        if rng.random() < 0.1:
            suffix = rng.choice(["", " ", "\n", "x", " x"])
            inp = rng.choice(["", " ", "  "]) + inp + suffix
            if suffix.endswith("x"):
                exp = "REJ"            # trailing garbage after the last field
        cases.append(("parse %s %s %s %s" % (zid, hx(fmt), hx(inp), exp)).rstrip())
    # %s: "if we saw %s then we ignore anything else" - but the whole input must still match the format
    for fm, pre, post in (("%s", "", ""), ("at %s!", "at ", "!"), ("%Y %s", "2013 ", ""), ("%s %H", "", " 07"), ("%H:%M %s", "23:59 ", "")):
        for v in (0, 1234567890, -1, I64_MAX, I64_MIN, 253402300800):
            for suffix, ok in (("", True), (" ", True), ("\n", True), ("x", False), (" junk", False), (".5", False), ("0x", False), (" 1", False)):
                inp = pre + str(v) + post + suffix
                cases.append("parse %s %s %s %s" % (rng.choice(ids), hx(fm), hx(inp), ("EXP %d 0" % v) if ok else "REJ"))
    # weekday and week-number fields at and just outside their documented ranges (%u 1-7, %w 0-6, %U %W 0-53)
    for fm, lo, hi in (("%u", 1, 7), ("%w", 0, 6), ("%U", 0, 53), ("%W", 0, 53)):
        for v in (lo - 1, lo, hi, hi + 1):
            if v < 0:
                continue
            cases.append("parse %s %s %s %s" % (fixed_ids()[0], hx(fm), hx(str(v)), "" if lo <= v <= hi else "REJ"))
            cases.append("parse %s %s %s %s" % (fixed_ids()[0], hx("%Y-%W-" + fm if fm in ("%u", "%w") else "%Y-" + fm + "-%u"),
                                                hx("2018-01-%d" % v if fm in ("%u", "%w") else "2018-%02d-1" % v), "" if lo <= v <= hi else "REJ"))
    # %e: exactly what format() renders (a blank and one digit, or two digits) and its near misses
    for inp, exp in (("2024-03- 9", "CIV 2024 3 9 0 0 0 0"), ("2024-03-19", "CIV 2024 3 19 0 0 0 0"), ("2024-03-9", "CIV 2024 3 9 0 0 0 0"),
                     ("2024-03- 0", "REJ"), ("2024-03-  9", "REJ"), ("2024-03- 19", "REJ"), ("2024-03- x", "REJ"), ("2024-03- ", "REJ")):
        cases.append("parse %s %s %s %s" % (fixed_ids()[0], hx("%Y-%m-%e"), hx(inp), exp))
    cases.append("parse %s %s %s %s" % (fixed_ids()[0], hx("%Y-%m-%d"), hx("2024-03- 9"), "REJ"))
    cases.append("parse %s %s %s %s" % (fixed_ids()[0], hx("%Y-%m-%e%H"), hx("2024-03- 901"), "CIV 2024 3 9 1 0 0 0"))
    # %s and years at the int64 limits
    for v in (I64_MAX, I64_MAX - 1, I64_MIN, I64_MIN + 1, 0, -1):
        for txt in (str(v), str(v + 1) if v > 0 else str(v - 1), str(v) + "0", "+" + str(v), " " + str(v) + " "):
            try:
                iv = int(txt)
            except ValueError:
                iv = None
            exp = "EXP %d 0" % iv if iv is not None and I64_MIN <= iv <= I64_MAX and not txt.startswith("+") else "REJ"
            cases.append("parse %s %s %s %s" % (ids[0], hx("%s"), hx(txt), exp))
            cases.append("parse %s %s %s" % (ids[-1], hx("%Y"), hx(txt)))
    for inp, fm in [("Sep 31 2020", "%b %d %Y"), ("Feb 29 2021", "%b %d %Y"), ("Feb 29 2020", "%b %d %Y"), ("2020-02-30", "%Y-%m-%d"),
                    ("2016-12-31T23:59:60Z", "%Y-%m-%dT%H:%M:%S%Ez"), ("2016-12-31T23:59:60.5Z", "%Y-%m-%dT%H:%M:%E*S%Ez"),
                    ("12 PM", "%I %p"), ("12 AM", "%I %p"), ("1 pm", "%I %p"), ("13:00", "%H:%M"), ("24:00", "%H:%M"),
                    ("2020 W10 3", "%Y W%W %u"), ("2020 10 0", "%Y %U %w"), ("2020 53 7", "%Y %W %u"), ("2020 54 1", "%Y %W %u"),
                    ("%", "%%"), ("x", "%%"), ("T", "%ET"), ("t", "%ET"), ("x", "%ET"), ("0123", "%E4Y"), ("123", "%E4Y"), ("-123", "%E4Y"),
                    ("-0123", "%E4Y"), ("10000", "%E4Y"), ("+01:00", "%Ez"), ("+0100", "%Ez"), ("+01", "%Ez"), ("+1", "%Ez"), ("Z", "%Ez"), ("z", "%z"),
                    ("+24:00", "%Ez"), ("+23:60", "%Ez"), ("+23:59:60", "%E*z"), ("-00:00:30", "%E*z"), ("UTC", "%Z"), ("", "%Z"), ("  ", " "),
                    ("2020", "%Y%"), ("2020", "%Y%E"), ("2020x", "%Y%Ex"), ("1.5", "%E*S"), ("1.", "%E*S"), (".5", "%E*f"), ("5", "%E3f"), ("x", "%E*f")]:
        for zid in (ids[0], ids[-1]):
            cases.append("parse %s %s %s" % (zid, hx(fm), hx(inp)))
    # instants at and just beyond both ends of the range, written with an explicit offset, parsed in
    # zones whose own offset differs from UTC (the supplied zone must not matter when an offset is given)
    zlim = [gen_zone.named(gen_zone.fixed_name(o)) for o in (3600, -28800, 50400, -3600, 86399, -86399)] + ids[:4] + [fixed_ids()[-1]]
    for base, sgn in ((I64_MAX, 1), (I64_MIN, -1)):
        for delta in [0, 1, 2, 59, 60, 3599, 3600, 3601, 28799, 28800, 28801, 50399, 50400, 50401, 86399, 86400, 86401, 172800] + [rng.randint(1, 90000) for _ in range(6)]:
            for side in (1, -1):
                t = base + sgn * side * delta
                for off in (0, 3600, -28800, 50400, -45296):
                    cs = civil_of_seconds(t + off)
                    if not (I64_MIN <= cs[0] <= I64_MAX):
                        continue
                    a = abs(off)
                    txt = "%d-%02d-%02dT%02d:%02d:%02d%s%02d:%02d:%02d" % (cs[0], cs[1], cs[2], cs[3], cs[4], cs[5], "-" if off < 0 else "+", a // 3600, a // 60 % 60, a % 60)
                    exp = "EXP %d 0" % t if I64_MIN <= t <= I64_MAX else "REJ"
                    cases.append("parse %s %s %s %s" % (rng.choice(zlim), hx("%Y-%m-%dT%H:%M:%S%E*z"), hx(txt), exp))
    # week numbers with weekdays: %U/%W with %w/%u (expected instant = midnight of that date in UTC)
    import datetime
    utcid = fixed_ids()[-1]
    for _ in range(400 if tier == "quick" else 20000):
        y = rng.choice([1970, 2000, 2001, 2004, 2006, 2012, 2017, 2018, 2023, 2024, 2030, 1900, 2100, rng.randint(1600, 2400)])
        doy = rng.choice([1, 2, 3, 4, 5, 6, 7, 8, rng.randint(1, 365), 360, 361, 362, 363, 364, 365])
        dt = datetime.date(y, 1, 1) + datetime.timedelta(days=doy - 1)
        if dt.year != y:
            continue
        wd_sun0 = (dt.weekday() + 1) % 7
        yday = dt.timetuple().tm_yday - 1
        U = (yday + 7 - wd_sun0) // 7
        W = (yday + 7 - (wd_sun0 + 6) % 7) // 7
        t = days_from_civil(dt.year, dt.month, dt.day) * 86400
        cases.append("parse %s %s %s EXP %d 0" % (utcid, hx("%Y %U %w"), hx("%d %02d %d" % (y, U, wd_sun0)), t))
        cases.append("parse %s %s %s EXP %d 0" % (utcid, hx("%Y-W%W-%u"), hx("%d-W%02d-%d" % (y, W, wd_sun0 if wd_sun0 else 7)), t))
        cases.append("parse %s %s %s EXP %d 0" % (utcid, hx("%W %u %Y"), hx("%d %d %d" % (W, wd_sun0 if wd_sun0 else 7, y)), t))
    # twelve-hour clock through strptime (%I, %p)
    for h24 in range(24):
        h12 = h24 % 12 or 12
        ap = "AM" if h24 < 12 else "PM"
        t = days_from_civil(2021, 6, 15) * 86400 + h24 * 3600 + 7 * 60 + 9
        cases.append("parse %s %s %s EXP %d 0" % (utcid, hx("%Y-%m-%d %I:%M:%S %p"), hx("2021-06-15 %02d:07:09 %s" % (h12, ap)), t))
        cases.append("parse %s %s %s EXP %d 0" % (utcid, hx("%p %I:%M:%S %Y-%m-%d"), hx("%s %02d:07:09 2021-06-15" % (ap, h12)), t))
    # %s wins over everything else; fraction dropped
    for v in (0, 1, -1, 1234567890, -62135596800):
        cases.append("parse %s %s %s EXP %d 0" % (ids[0], hx("%s %Y-%m-%d %E*S"), hx("%d 2020-02-30 59.5" % v) if False else hx("%d 2020-02-03 59.5" % v), v))
        cases.append("parse %s %s %s EXP %d 0" % (ids[0], hx("%Y %s"), hx("1999 %d" % v), v))
    # %E4Y: exactly four characters, -999 .. 9999 (expectations from the calendar)
    def e4(y):
        return "%04d" % y if y >= 0 else "-%03d" % (-y)
    for y in [0, 1, 9, 10, 99, 100, 999, 1000, 1970, 9999, -1, -9, -10, -99, -100, -999]:
        t = days_from_civil(y, 1, 1) * 86400
        s = e4(y)
        cases.append("parse %s %s %s EXP %d 0" % (fixed_ids()[-1], hx("%E4Y"), hx(s), t))
        cases.append("parse %s %s %s EXP %d 0" % (fixed_ids()[-1], hx("%E4Y-%m-%d"), hx(s + "-01-01"), t))
        # one character fewer, one more, or a separator eaten: never four characters
        for bad in {s[1:], s[:-1], s + "0", s[:2] + s[3:]}:
            if len(bad) != 4:
                cases.append("parse %s %s %s REJ" % (fixed_ids()[-1], hx("%E4Y-%m-%d"), hx(bad + "-01-01")))
                cases.append("parse %s %s %s REJ" % (fixed_ids()[-1], hx("%E4Y"), hx(bad)))
    for bad in ["10000", "-1000", "+123", " 123", "12 3", "0x10", "----", "1e10"]:
        cases.append("parse %s %s %s REJ" % (fixed_ids()[-1], hx("%E4Y"), hx(bad)))
    # unstructured random pairs
    alpha = "%YmdHMSzsE*:4Tf-+ 0123456789aApbZ.\0\xff"
    for _ in range(800 if tier == "quick" else 60000):
        f = "".join(rng.choice(alpha) for _ in range(rng.randint(0, 8)))
        i = "".join(rng.choice(alpha[10:]) for _ in range(rng.randint(0, 10)))
        cases.append("parse %s %s %s" % (rng.choice(ids), hx(f), hx(i)))
    return cases, zones


# ---- C18 ----
TYPES = {"ns64": (1, 10**9, 64), "us64": (1, 10**6, 64), "ms64": (1, 1000, 64), "s64": (1, 1, 64), "min32": (60, 1, 32),
         "h32": (3600, 1, 32), "s8": (1, 1, 8), "s16": (1, 1, 16), "min8": (60, 1, 8), "min16": (60, 1, 16),
         "third64": (1, 3, 64), "fs64": (1, 10**15, 64)}


def gen_c18(tier, rng):
    cases = []
    n = 60 if tier == "quick" else 4000
    for T, (num, den, bits) in TYPES.items():
        lo, hi = -(1 << (bits - 1)), (1 << (bits - 1)) - 1
        # keep c*num inside int64 (the property's range)
        lim = ((1 << 63) - 1) // num
        lo2, hi2 = max(lo, -lim), min(hi, lim)
        vals = {0, 1, -1, 2, -2, lo2, lo2 + 1, hi2, hi2 - 1}
        for k in range(-3 * den, 3 * den + 1, max(1, den // 7) if den > 20 else 1):
            vals.add(k)
        for r in (1, den - 1, den, den + 1, den // 2, den // 3):
            for sgn in (1, -1):
                vals.add(sgn * r)
                vals.add(sgn * (5 * den + r))
        for _ in range(n):
            vals.add(rng.randint(lo2, hi2))
            vals.add(rng.randint(max(lo2, -10**6 * den), min(hi2, 10**6 * den)))
        star = set()
        if den > 1:
            # sub-second parts with every possible number of trailing zeros, both sides of the epoch (%E*S / %E*f)
            k = 0
            while 10 ** k < den:
                for _ in range(2 if tier == "quick" else 20):
                    r = rng.randint(1, den // 10 ** k - 1) if den // 10 ** k > 1 else 1
                    if r % 10 == 0:
                        r += 1
                    c = rng.choice([0, 1, -1, 86399, -86400, 1700000000, -1700000000]) * den + (r * 10 ** k) % den
                    if lo2 <= c <= hi2:
                        star.add(c)
                k += 1
        for c in sorted(star):
            cases.append("tfmt %s %d %s" % (T, c, hx("%E*S|%E*f")))
        for c in sorted(v for v in vals if lo2 <= v <= hi2):
            cases.append("split %s %d" % (T, c))
            cases.append("tconv %s %d" % (T, c))
            f = rng.choice(["%Y-%m-%dT%H:%M:%E*S", "%E0S|%E1S|%E3S|%E6S|%E9S|%E12S|%E14S|%E15S|%E16S|%E17S|%E18S|%E19S", "%E*f|%E1f|%E3f|%E14f|%E15f|%E16f|%E18f", "%H:%M:%S %s", "%E*S"])
            cases.append("tfmt %s %d %s" % (T, c, hx(f)))
        # join / parse at and beyond the representation's limits
        secs = {0, 1, -1, 59, 60, 61, -59, -60, -61, 3599, 3600, 3601, -3599, -3600, -3601, I64_MAX, I64_MIN, I64_MAX - 59, I64_MIN + 59}
        for b in (lo, hi):
            for d in (-2, -1, 0, 1, 2):
                secs.add(b * num + d)
                secs.add((b + 1) * num + d)
        for s in sorted(v for v in secs if I64_MIN <= v <= I64_MAX):
            if den == 1 or abs(s) < (1 << 62) // den:
                cases.append("join %s %d %d" % (T, s, rng.choice([0, 10**15 - 1, 5 * 10**14])))
            if den == 1:
                fl = s // num
                exp = "EXP %d" % fl if lo <= fl <= hi else "REJ"
                cases.append("tparse %s %s %s %s" % (T, hx("%s"), hx(str(s)), exp))
        for txt, fm in (("1969-12-31T23:59:59.9", "%Y-%m-%dT%H:%M:%E*S"), ("1970-01-01T00:00:00.000000001", "%Y-%m-%dT%H:%M:%E*S"),
                        ("1970-01-01T00:02:07", "%Y-%m-%dT%H:%M:%S"), ("1970-01-01T00:02:08", "%Y-%m-%dT%H:%M:%S"), ("1969-12-31T23:57:52", "%Y-%m-%dT%H:%M:%S"),
                        ("1969-12-31T23:57:51", "%Y-%m-%dT%H:%M:%S"), ("1970-01-01T09:06:07", "%Y-%m-%dT%H:%M:%S"), ("1970-01-01T09:06:08", "%Y-%m-%dT%H:%M:%S")):
            cases.append("tparse %s %s %s" % (T, hx(fm), hx(txt)))
    return cases
