"""C16 generator: sentences of the POSIX-TZ grammar with every optional part
present/absent and every number at and beyond its bounds; single-edit mutants;
random bytes; all real footers."""
from . import tzif


def hexs(b):
    return b.hex() if b else "-"


ABBR_OK = [b"EST", b"EDT", b"ABCDEF", b"<+03>", b"<-0330>", b"<>", b"<A>", b"xyz", b"a.b", b"A B", b"\x80\x81\x82"]
ABBR_BAD = [b"", b"AB", b"<+03", b"A1C", b"+AB", b"E,T"]
HOURS = [b"0", b"5", b"05", b"24", b"25", b"23", b"000000000000005", b"99999999999", b"2147483648", b"", b"1", b"167", b"168", b"-1"]
MMSS = [b"", b":0", b":59", b":60", b":30:0", b":30:59", b":30:60", b":", b":30:", b":5:5", b":005"]
SIGN = [b"", b"+", b"-", b"+-", b"--"]
DATES = [b"M3.2.0", b"M11.1.0", b"M1.1.0", b"M12.5.6", b"M13.1.0", b"M0.1.0", b"M3.0.0", b"M3.6.0", b"M3.5.7",
         b"J1", b"J365", b"J366", b"J0", b"J59", b"J60", b"0", b"365", b"366", b"59", b"M3", b"M3.2", b"M3.2.", b"M.2.0",
         b"J", b"", b"M10.5.0", b"M3.2.0x", b"-1", b"M3.02.00"]
TIMES = [b"", b"/2", b"/0", b"/-1", b"/167", b"/168", b"/-167", b"/-168", b"/26:30", b"/2:30:15", b"/", b"/+3", b"/24", b"/2:60"]


def gen_c16(tier, rng):
    out = []
    def add(b):
        out.append("posix %s" % hexs(b))
    # real footers
    seen = set()
    for p in tzif.zone_files():
        f = tzif.footer_of(open(p, "rb").read())
        if f is not None and f not in seen:
            seen.add(f)
            add(f)
    real = sorted(seen)
    # std only
    for a in ABBR_OK + ABBR_BAD:
        for sg in SIGN:
            for h in HOURS:
                add(a + sg + h)
                if rng.random() < (0.3 if tier == "quick" else 1.0):
                    add(a + sg + h + rng.choice(MMSS))
    for a in ABBR_OK[:4]:
        for m in MMSS:
            add(a + b"5" + m)
            add(a + b"-5" + m)
    # full rules
    n = 6000 if tier == "quick" else 400000
    for _ in range(n):
        s = rng.choice(ABBR_OK + ABBR_BAD[:2]) + rng.choice(SIGN[:3]) + rng.choice(HOURS[:8]) + rng.choice(MMSS[:6])
        s += rng.choice(ABBR_OK + ABBR_BAD[:3])
        if rng.random() < 0.5:
            s += rng.choice(SIGN[:3]) + rng.choice(HOURS[:8]) + rng.choice(MMSS[:6])
        k = rng.choice([2, 2, 2, 2, 1, 0, 3])
        for _j in range(k):
            s += b"," + rng.choice(DATES) + rng.choice(TIMES)
        if rng.random() < 0.1:
            s += rng.choice([b",", b" ", b"x", b"\n", b"\0", b"\0junk", b",M1.1.1"])
        add(s)
    # systematic: each date x each time in both positions
    for d in DATES:
        for t in TIMES:
            add(b"EST5EDT," + d + t + b",M11.1.0")
            add(b"EST5EDT,M3.2.0," + d + t)
    # digit runs at the limits of ParseInt's int accumulation, in every numeric position
    from .gen_zone import EDGE_NUMS, FOOTERS
    for f in FOOTERS:
        if any(n in f for n in EDGE_NUMS):
            add(f)
    # the F3 family explicitly
    for s in [b"STD5DST,M3.2.0", b"STD5DST4/3,M11.1.0", b"STD5DST/1", b"STD5DST", b"STD5DST4", b"STD5DST,", b"STD5DST,,",
              b"EST5EDT,M3,M11.1.0", b"EST5EDT,M3.2,M11.1.0", b"EST5EDT,M3.2.0,M11", b"EST5EDT,M3.2.0,M11.1",
              b"EST5EDT,M3/1,M11.1.0/2", b":EST5", b"EST5EDT,M3.2.0/2,M11.1.0/2,", b"<+03>-3<+04>,J1/0,J365/25"]:
        add(s)
    # single-edit mutants of accepted sentences
    seeds = real[:] + [b"EST5EDT,M3.2.0,M11.1.0", b"<-03>3<-02>,M3.5.0/-2,M10.5.0/-1", b"IST-2IDT,M3.4.4/26,M10.5.0",
                       b"XXX-1YYY0,J365/25:30,J1/0", b"AAA24BBB,0/0,J365/25", b"NZST-12NZDT,M9.5.0,M4.1.0/3"]
    if tier == "quick":
        seeds = rng.sample(seeds, min(len(seeds), 40)) + seeds[-6:]
    ins = [b",", b"/", b".", b"0", b"9", b"M", b"J", b":", b"+", b"-", b"<", b">", b"A", b" ", b"\0"]
    for s in seeds:
        for i in range(len(s) + 1):
            if i < len(s):
                add(s[:i] + s[i + 1:])                       # delete
                add(s[:i] + rng.choice(ins) + s[i + 1:])     # replace
            add(s[:i] + rng.choice(ins) + s[i:])             # insert
    # random bytes
    for _ in range(2000 if tier == "quick" else 200000):
        L = rng.randint(0, 24)
        alphabet = b"ESTD05:,./MJ<>+-1239 \0\xff"
        add(bytes(rng.choice(alphabet) for _ in range(L)))
    return out
