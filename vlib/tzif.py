"""Minimal TZif reader/writer used by the generators (not by any oracle: the
Spec oracle reads the bytes itself inside the extracted Coq model)."""
import os, struct
from .common import REPO

ZONEINFO = os.path.join(REPO, "testdata", "zoneinfo")


def zone_files():
    out = []
    for root, _, files in os.walk(ZONEINFO):
        for f in files:
            p = os.path.join(root, f)
            with open(p, "rb") as fh:
                if fh.read(4) == b"TZif":
                    out.append(p)
    return sorted(out)


def zone_name(path):
    return os.path.relpath(path, ZONEINFO)


def footer_of(data):
    if data[4:5] == b"\0":
        return None
    if not data.endswith(b"\n"):
        return None
    i = data.rfind(b"\n", 0, len(data) - 1)
    return data[i + 1:-1]


class Tz:
    """Parsed TZif (v2+ uses the 64-bit block)."""
    def __init__(self, data):
        self.version = data[4:5]
        def block(off, tl):
            (isutc, isstd, leap, timecnt, typecnt, charcnt) = struct.unpack(">6l", data[off + 20:off + 44])
            p = off + 44
            fmt = ">%d%s" % (timecnt, "l" if tl == 4 else "q")
            times = list(struct.unpack(fmt, data[p:p + timecnt * tl])); p += timecnt * tl
            idx = list(data[p:p + timecnt]); p += timecnt
            types = []
            for _ in range(typecnt):
                (uo, dst, ai) = struct.unpack(">lBB", data[p:p + 6]); p += 6
                types.append((uo, dst, ai))
            abbr = data[p:p + charcnt]; p += charcnt
            p += leap * (tl + 4) + isstd + isutc
            return times, idx, types, abbr, p, (isutc, isstd, leap, timecnt, typecnt, charcnt)
        t = block(0, 4)
        if self.version != b"\0":
            t = block(t[4], 8)
        self.times, self.idx, self.types, self.abbr, self.end, self.counts = t
        self.footer = footer_of(data) if self.version != b"\0" else None


def write_tzif(version, times, idx, types, abbr, footer, leapcnt=0, isstd=0, isut=0, v1_block=True, magic=b"TZif", counts_override=None):
    """version: b'\\0', b'2', b'3', b'4'. types: list of (utoff, isdst, abbrind)."""
    def hdr(ver, timecnt, typecnt, charcnt, leap=0, std=0, ut=0):
        return magic + ver + b"\0" * 15 + struct.pack(">6l", ut, std, leap, timecnt, typecnt, charcnt)
    def body(tl, tms):
        b = b"".join(struct.pack(">l" if tl == 4 else ">q", t) for t in tms)
        b += bytes(idx[:len(tms)])
        for (uo, dst, ai) in types:
            b += struct.pack(">lBB", uo, dst, ai)
        b += abbr
        b += b"\0" * (leapcnt * (tl + 4) + isstd + isut)
        return b
    if version == b"\0":
        t32 = [t for t in times if -2**31 <= t < 2**31]
        return hdr(version, len(t32), len(types), len(abbr), leapcnt, isstd, isut) + body(4, t32)
    out = b""
    if v1_block:
        t32 = [t for t in times if -2**31 <= t < 2**31]
        # keep idx aligned: only a prefix/suffix may be cut; for simplicity emit an empty v1 block when cut
        if len(t32) != len(times):
            out += hdr(version, 0, 1, 1) + struct.pack(">lBB", 0, 0, 0) + b"\0"
        else:
            out += hdr(version, len(t32), len(types), len(abbr)) + body(4, t32)[: len(t32) * 5 + len(types) * 6 + len(abbr)]
    else:
        out += hdr(version, 0, 1, 1) + struct.pack(">lBB", 0, 0, 0) + b"\0"
    c = counts_override or (isut, isstd, leapcnt, len(times), len(types), len(abbr))
    out += magic + version + b"\0" * 15 + struct.pack(">6l", *c) + body(8, times)
    out += b"\n" + (footer or b"") + b"\n"
    return out
