#!/bin/bash
# runs every registered quick check on the current tree, prints one line each
cd /verif
for p in $(python3 -c "import json; print(' '.join(c['property_id'] for c in json.load(open('MANIFEST.json'))['checks']))") "$@"; do
  s=$(date +%s)
  out=$(timeout 3000 ./check $p 2>&1 | grep -E "^OK|VIOLATION" | head -1 | cut -c1-160)
  echo "$p [$(( $(date +%s) - s ))s] $out"
done
