#!/bin/bash
# run_mutant.sh <dir with patch.diff> <check ids...> : applies the change to /repo, runs the checks, restores /repo
D=$1; shift
git -C /repo apply $D/patch.diff || exit 2
for p in "$@"; do
  out=$(cd /verif && timeout 1800 ./check $p $EXTRA 2>&1 | tail -4 | cut -c1-260)
  echo "== $p: $(echo "$out" | grep -E 'VIOLATION|^OK' | head -2 | tr '\n' ' ')"
  echo "$out" | grep -E "failing|implementation:|specification:" | head -3
done
git -C /repo checkout -- .
# the source-derived Coq files were regenerated from the changed tree: regenerate them from the restored one
(cd /verif && for g in src_constants ast_translate ast_translate64 ast_translate_ptr ast_translate_out ast_translate_zone ast_translate_load ast_translate_chrono; do python3 gen/$g.py >/dev/null 2>&1; done)
git -C /repo status --short | grep -v _build | head -3
