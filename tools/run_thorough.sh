#!/bin/bash
# runs every thorough check on the current tree, one line each (long: up to hours)
cd /verif
for p in "$@"; do
  s=$(date +%s)
  out=$(timeout 7200 ./check $p --tier thorough 2>&1 | grep -E "^OK|VIOLATION" | head -1 | cut -c1-200)
  echo "$p [$(( $(date +%s) - s ))s] $out"
done
