#!/bin/bash
# confirm_mutant.sh <src dir with patch.diff demo.cc> : confirms in a scratch worktree that
#  - the patched library builds and passes the unchanged test suite,
#  - the demo FAILS with the patch and PASSES without it.
set -u
SRC=$1
W=$(mktemp -d /tmp/confirm_XXXX)
git -C /repo worktree add -q --detach $W/wt HEAD
cd $W/wt
SRCS="src/civil_time_detail.cc src/time_zone_fixed.cc src/time_zone_format.cc src/time_zone_if.cc src/time_zone_impl.cc src/time_zone_info.cc src/time_zone_libc.cc src/time_zone_lookup.cc src/time_zone_posix.cc src/zone_info_source.cc"
cp $SRC/demo.cc .
g++ -std=c++11 -O1 -Iinclude -Isrc demo.cc $SRCS -pthread -o demo_clean 2>/dev/null
TZDIR=$W/wt/testdata/zoneinfo timeout 300 ./demo_clean >/dev/null 2>&1; CLEAN=$?
git apply $SRC/patch.diff || { echo "PATCH-DOES-NOT-APPLY"; cd /; git -C /repo worktree remove --force $W/wt; rm -rf $W; exit 1; }
g++ -std=c++11 -O1 -Iinclude -Isrc demo.cc $SRCS -pthread -o demo_mut 2>/dev/null
TZDIR=$W/wt/testdata/zoneinfo timeout 300 ./demo_mut >/dev/null 2>&1; MUT=$?
cmake -G Ninja -B _build -DCMAKE_BUILD_TYPE=Release >/dev/null 2>&1 && cmake --build _build >/dev/null 2>&1
TZDIR=$W/wt/testdata/zoneinfo ctest --test-dir _build -j8 2>&1 | grep -E "tests passed|tests failed" | head -1 > $W/ctest.txt
echo "demo_clean_exit=$CLEAN demo_mutant_exit=$MUT suite: $(cat $W/ctest.txt)"
cd /
git -C /repo worktree remove --force $W/wt
rm -rf $W
